#!/usr/bin/env python3
"""Machine-shape generator: shape spec -> numbered node table, C++ translation unit, JSON for the monitors.

node spec:  ('L',)                                   plain state
            ('C', strategy, headless, [children])     composite-style region
            ('O', headless, [children])               orthogonal region
strategy in Composite / Resumable / Selectable / Utilitarian / Random
"""
import json, random, hashlib, zlib

STRATS = ['Composite', 'Resumable', 'Selectable', 'Utilitarian', 'Random']
STRAT_ID = {s: i for i, s in enumerate(STRATS)}

# ---------------------------------------------------------------------------------------------

def number(spec):
    """depth-first numbering exactly as the property C17 states it (root = 0, headless heads occupy an id)"""
    nodes, regions = [], []
    def rec(node, parent, prong):
        nid = len(nodes)
        n = {'id': nid, 'parent': parent, 'prong': prong, 'kind': node[0], 'children': [], 'strategy': None, 'headless': False, 'region': -1}
        nodes.append(n)
        if node[0] == 'L':
            n['size'] = 1
            return nid
        if node[0] == 'C':
            n['strategy'] = node[1]; n['headless'] = bool(node[2]); kids = node[3]
        else:
            n['headless'] = bool(node[1]); kids = node[2]
        n['region'] = len(regions); regions.append(nid)
        for i, k in enumerate(kids):
            n['children'].append(rec(k, nid, i))
        n['size'] = 1 + sum(nodes[c]['size'] for c in n['children'])
        return nid
    rec(spec, -1, -1)
    return nodes, regions

def subtree(nodes, r):
    out = [r]
    for c in nodes[r]['children']: out += subtree(nodes, c)
    return out

def clean_select(nodes, r):
    return not any(nodes[s]['kind'] == 'C' and nodes[s]['headless'] for s in subtree(nodes, r))
def clean_util(nodes, r):
    return not any(nodes[s]['kind'] != 'L' and nodes[s]['headless'] for s in subtree(nodes, r))

def kind_masks(nodes):
    """static permission of request kinds per destination (see DESIGN 2.2: runs stay inside the preconditions)"""
    has_ortho = any(n['kind'] == 'O' for n in nodes)
    masks = []
    for n in nodes:
        s = n['id']
        if s == 0 or has_ortho: a = 0
        else:
            a = s
            while nodes[a]['parent'] != 0: a = nodes[a]['parent']
        m = 0b1000111  # change restart resume schedule
        if clean_select(nodes, a): m |= 1 << 3
        if clean_util(nodes, a): m |= (1 << 4) | (1 << 5)
        masks.append(m)
    return masks

def valid(spec):
    """declared strategies must be resolvable inside the preconditions"""
    nodes, _ = number(spec)
    for n in nodes:
        if n['kind'] == 'C':
            if n['strategy'] == 'Selectable' and n['headless']: return False
            if n['strategy'] in ('Utilitarian', 'Random') and not clean_util(nodes, n['id']): return False
            # a selectable/other region nested below a utility-evaluated region is evaluated too
        if n['kind'] != 'L' and len(n['children']) == 0: return False
    # nested selectable below U/R: select() of a headless composite is impossible because clean_util above
    return True

# ---------------------------------------------------------------------------------------------

def rand_spec(rng, depth=4, max_width=4, p_leaf=0.35, p_ortho=0.3, p_headless=0.25, strategies=STRATS, min_states=4, max_states=40):
    for _ in range(200):
        def node(d, under_util):
            if d >= depth or rng.random() < p_leaf: return ('L',)
            n = rng.randint(1, max_width)
            if rng.random() < p_ortho:
                if rng.random() < 0.12: n = rng.choice([8, 8, 9])        # prong-bit views ending exactly on / just past a unit boundary
                headless = (not under_util) and rng.random() < p_headless
                return ('O', headless, [node(d + 1, under_util) for _ in range(n)])
            st = rng.choice(strategies)
            headless = (not under_util) and st != 'Selectable' and rng.random() < p_headless
            uu = under_util or st in ('Utilitarian', 'Random')
            if n == 1 and rng.random() < 0.7: n = 2
            return ('C', st, headless, [node(d + 1, uu) for _ in range(n)])
        n = rng.randint(2, max_width)
        if rng.random() < 0.25:
            spec = ('O', rng.random() < p_headless, [node(1, False) for _ in range(n)])
        else:
            st = rng.choice(strategies)
            spec = ('C', st, st != 'Selectable' and rng.random() < p_headless and st not in ('Utilitarian', 'Random'), [node(1, st in ('Utilitarian', 'Random')) for _ in range(n)])
        nodes, regions = number(spec)
        ncomp = sum(1 for n in nodes if n['kind'] == 'C')
        if valid(spec) and min_states <= len(nodes) <= max_states and ncomp >= 1:
            return spec
    raise RuntimeError('no shape')

def has_width1(nodes):
    return any(n['kind'] == 'C' and len(n['children']) == 1 for n in nodes)

# ---------------------------------------------------------------------------------------------
# curated shapes: the tricky ones are pinned so that every run has them

L = ('L',)
def C(st, *kids, headless=False): return ('C', st, headless, list(kids))
def O(*kids, headless=False): return ('O', headless, list(kids))

CURATED = {
    # plain nesting, all headed, every strategy somewhere; no orthogonal (exercises the no-ortho registry)
    'k_compo_all': C('Composite', C('Resumable', L, L, L), C('Selectable', L, C('Composite', L, L), L), C('Utilitarian', L, C('Random', L, L, L), L), C('Random', L, L, C('Utilitarian', L, L)), L),
    # orthogonal root, headed regions
    'k_ortho_root': O(C('Composite', L, L, C('Resumable', L, L)), C('Selectable', L, C('Composite', L, L), L), C('Resumable', L, L), L),
    # orthogonal region with plain-state siblings below a composite root (consume among leaf siblings; forward exit guard)
    'k_ortho_leafs': C('Composite', O(L, L, L), O(C('Composite', L, L), L), L),
    # headless everywhere (no select / utility kinds)
    'k_headless': C('Composite', C('Resumable', L, L, headless=True), O(C('Composite', L, L, headless=True), L, headless=True), C('Composite', L, C('Resumable', L, L), headless=True), headless=True),
    # selectable whose sub-states are regions (select descent), nested selectable under utilitarian
    'k_select_nested': C('Selectable', C('Composite', L, L), C('Resumable', L, L, L), O(C('Selectable', L, L), L), C('Utilitarian', C('Selectable', L, L), L)),
    # deep chain: self transitions, ancestors re-run
    'k_deep': C('Composite', C('Composite', C('Composite', C('Resumable', L, L), L), L), L, C('Resumable', C('Resumable', L, L), L)),
    # random/utilitarian mix with orthogonal inside (mean utility)
    'k_util_ortho': C('Utilitarian', O(L, L), C('Random', L, L, L, L), O(C('Utilitarian', L, L), C('Random', L, L), C('Resumable', C('Composite', L, L), L)), L),
    # wide regions (balanced split at odd sizes), width 1 composite
    'k_wide': C('Resumable', L, L, L, L, L, L, L, C('Composite', L, L, L, L, L), L),
    # single composite region (queue capacity 1)
    'k_single': C('Composite', L, L, L),
    # orthogonal region wider than 8 (two bit units) followed by orthogonal siblings: unit offsets of later regions
    'k_ortho_wide9': O(O(L, L, L, L, L, L, L, L, C('Composite', L, L)), O(C('Resumable', L, L), C('Composite', L, L)), C('Composite', L, O(L, L))),
    # orthogonal region exactly 8 wide (its prong-bit view ends on a unit boundary) whose prongs hold nested regions
    'k_ortho_w8': C('Composite', O(C('Composite', L, C('Composite', L, L)), L, L, L, L, L, C('Resumable', L, C('Resumable', L, L)), C('Composite', L, L)), L),
    # the same width off prong 0 of the root (a write one unit past the prong bits lands on the root's active prong, which is 0 in the shape above)
    'k_ortho_w8b': C('Composite', L, O(C('Composite', L, C('Composite', L, C('Resumable', L, L))), L, L, L, L, L, L, C('Resumable', L, L)), L),     # also three composite levels below the orthogonal region
    # wide random regions of plain states (rounding in the cumulative walk, trailing zero utilities)
    'k_random_wide': C('Composite', C('Random', L, L, L, L, L, L), C('Random', L, L, L, C('Utilitarian', L, L), L), L),
    # orthogonal regions nested directly in orthogonal regions, below composite regions that are inactive part of the time
    'k_ortho_in_ortho': C('Composite', L, C('Composite', L, O(O(L, L, C('Composite', L, L)), L, C('Resumable', L, L))), O(O(L, L), L)),
    # width-1 regions (no save/load)
    'k_width1': C('Composite', C('Composite', L), C('Resumable', C('Composite', L, L)), L),
}

# configuration fixed for some curated shapes (the rest is drawn): an orthogonal root with a selectable prong under manual activation
# (regions no replayed request addresses are resolved by replayEnter()'s own root request only)
CURATED_CFG = {'k_ortho_root': {'manual': 1}}

# larger shapes used by the thorough tier only (compile time)
CURATED_BIG = {
    # > 255 serialization bits (the 8-bit SERIAL_BITS truncation), orthogonal width multiple of 8 placed last
    'k_serial_big': O(*([C('Composite', L, L, headless=True)] * 88 + [O(L, L, L, L, L, L, L, L)]), headless=True),
    # wide resumable regions nested, widths 9 / 17
    'k_wide_nested': C('Resumable', C('Resumable', *([L] * 9)), C('Composite', *([L] * 17)), O(C('Resumable', L, L, L), C('Composite', L, L, L, L, L)), L),
    # more than 255 states without any orthogonal region (8-bit arithmetic on state ids in the no-orthogonal registry)
    'k_states273': C('Composite', *[C('Resumable' if i % 2 else 'Composite', *([L] * 15)) for i in range(17)]),
    # deep alternation of orthogonal and composite regions
    'k_deep_ortho': C('Composite', O(C('Resumable', O(C('Composite', O(C('Resumable', L, L), L), L), L), L), C('Composite', L, L)), L),
}

# ---------------------------------------------------------------------------------------------

DEFAULT_CFG = {'manual': 0, 'bottomup': 0, 'subst': 4, 'taskcap': 0, 'payload': 'int'}

def describe(spec):
    if spec[0] == 'L': return 'L'
    if spec[0] == 'C': return ('c' if spec[2] else 'C') + spec[1][0:2] + '(' + ','.join(describe(k) for k in spec[3]) + ')'
    return ('o' if spec[1] else 'O') + '(' + ','.join(describe(k) for k in spec[2]) + ')'

def cpp_region(nodes, nid, root=False):
    n = nodes[nid]
    if n['kind'] == 'L': return 'N%d' % nid
    kids = ', '.join(cpp_region(nodes, c) for c in n['children'])
    head = '' if n['headless'] else 'N%d, ' % nid
    if n['kind'] == 'C':
        base = '' if n['strategy'] == 'Composite' else n['strategy']
        if root: name = base + ('PeerRoot' if n['headless'] else 'Root')
        else: name = (base if base else 'Composite') + ('Peers' if n['headless'] else '')
    else:
        if root: name = 'Orthogonal' + ('PeerRoot' if n['headless'] else 'Root')
        else: name = 'Orthogonal' + ('Peers' if n['headless'] else '')
    return 'M::%s<%s%s>' % (name, head, kids)

def expectations(nodes, regions):
    """independent computation of the published counts (C17)"""
    compo = sum(1 for n in nodes if n['kind'] == 'C')
    ortho = sum(1 for n in nodes if n['kind'] == 'O')
    prongs = sum(len(n['children']) for n in nodes if n['kind'] == 'C')
    ortho_units = sum((len(n['children']) + 7) // 8 for n in nodes if n['kind'] == 'O')
    def bits(w):  # bits needed to store a prong index 0..w-1
        b = 0
        while (1 << b) < w: b += 1
        return b
    active_bits = 0; resumable_bits = 0
    for n in nodes:
        if n['kind'] == 'C':
            w = len(n['children'])
            active_bits += bits(w); resumable_bits += 1 + bits(w)
    def abits(i):
        n = nodes[i]
        if n['kind'] == 'L': return 0
        if n['kind'] == 'C': return bits(len(n['children'])) + max(abits(c) for c in n['children'])
        return sum(abits(c) for c in n['children'])
    def rbits(i):
        n = nodes[i]
        if n['kind'] == 'L': return 0
        return (bits(len(n['children'])) + 1 if n['kind'] == 'C' else 0) + sum(rbits(c) for c in n['children'])
    serial = 1 + abits(0) + rbits(0)
    return {'SERIAL_BITS': serial, 'SERIAL_BYTES': (serial + 7) // 8, 'STATE_COUNT': len(nodes), 'REGION_COUNT': len(regions), 'COMPO_COUNT': compo, 'ORTHO_COUNT': ortho,
            'COMPO_PRONGS': prongs, 'ORTHO_UNITS': ortho_units, 'widths': [len(n['children']) for n in nodes]}

def shape_json(name, spec, cfg, inj=None):
    nodes, regions = number(spec)
    if inj is None:
        r = random.Random(zlib.crc32(describe(spec).encode()))
        inj = [n['id'] for n in nodes if not (n['kind'] != 'L' and n['headless']) and r.random() < 0.25]
    return {'inj': inj, 'name': name, 'desc': describe(spec), 'cfg': cfg, 'nodes': nodes, 'regions': regions, 'kindmask': kind_masks(nodes),
            'expect': expectations(nodes, regions), 'width1': has_width1(nodes)}

def emit_tu(sj, header='<hfsm2/machine.hpp>', main='vh_main.hpp', extra_defs=''):
    nodes, regions, cfg = sj['nodes'], sj['regions'], sj['cfg']
    named = [n['id'] for n in nodes if not (n['kind'] != 'L' and n['headless'])]
    def arr(name, vals): return 'static const short %s[] = { %s };' % (name, ', '.join(str(v) for v in vals) if vals else '0')
    children = []; child0 = []
    for n in nodes:
        child0.append(len(children)); children += n['children']
    region_of = [n['region'] for n in nodes]
    kind = [{'L': 0, 'C': 1, 'O': 2}[n['kind']] for n in nodes]
    strat = [STRAT_ID[n['strategy']] if n['strategy'] else -1 for n in nodes]
    cfgchain = 'hfsm2::Config::ContextT<vh::Probe&>\n'
    if not cfg.get('builtin_rng'): cfgchain += '\n#ifdef HFSM2_ENABLE_UTILITY_THEORY\n  ::RandomT<vh::ScriptedRng>\n#endif\n'
    if cfg.get('manual'): cfgchain += '  ::ManualActivation\n'
    if cfg.get('bottomup'): cfgchain += '  ::BottomUpReactions\n'
    if cfg.get('subst', 4) != 4: cfgchain += '  ::SubstitutionLimitN<%d>\n' % cfg['subst']
    if cfg.get('taskcap'): cfgchain += '#ifdef HFSM2_ENABLE_PLANS\n  ::TaskCapacityN<%d>\n#endif\n' % cfg['taskcap']
    cfgchain += '#ifndef VH_NO_PAYLOAD\n  ::PayloadT<VH_PAYLOAD>\n#endif\n'
    pay = {'int': 'int', 'pod24': 'vh::Pod24', 'big64': 'vh::Big64', 'tiny': 'vh::Tiny'}[cfg.get('payload', 'int')]
    decls = '\n'.join('struct N%d;' % i for i in named)
    inj = set(sj.get('inj', []))
    mask = {int(k): v for k, v in sj.get('mask', {}).items()}
    def body(i):
        # methods listed in the mask are NOT overridden: the using-declaration re-exposes the library's empty default
        return ' '.join('using FSM::State::%s;' % m for m in mask.get(i, []))
    defs = '\n'.join('struct N%d : vh::Node<%d, %d, %s> { %s };' % (i, i, len(nodes[i]['children']), (('FSM::StateT<vh::VInj<%d>, vh::VInj2<%d>>' % (i, i)) if i % 2 == 1 else ('FSM::StateT<vh::VInj<%d>>' % i)) if i in inj else 'FSM::State', body(i)) for i in named)
    fill = '\n'.join('\tp.expectThis[%d] = &m.template access<N%d>();' % (i, i) for i in named)
    ids = '\n'.join('\tout[%d] = (int)FSM::stateId<N%d>();' % (i, i) for i in named)
    rids = '\n'.join('\tout[%d] = (int)FSM::regionId<N%d>();' % (nodes[i]['region'], i) for i in named if nodes[i]['kind'] != 'L')
    return f'''// generated: shape {sj['name']}  {sj['desc']}
{extra_defs}
#ifndef VH_FEATURES_SET
#define HFSM2_ENABLE_ALL
#define HFSM2_ENABLE_UTILITY_THEORY
#define HFSM2_ENABLE_PLANS
#define HFSM2_ENABLE_SERIALIZATION
#define HFSM2_ENABLE_TRANSITION_HISTORY
#define HFSM2_ENABLE_STRUCTURE_REPORT
#define HFSM2_ENABLE_LOG_INTERFACE
#endif
#include {header}
#ifndef VH_PAYLOAD
#define VH_PAYLOAD {pay}
#endif
#define VH_SUBST_LIMIT {cfg.get('subst', 4)}
#define VH_MANUAL {1 if cfg.get('manual') else 0}
{'#define VH_BUILTIN_RNG 1' if cfg.get('builtin_rng') else ''}
#include "vh.hpp"
{arr('VH_PARENT', [n['parent'] for n in nodes])}
{arr('VH_PRONG', [n['prong'] for n in nodes])}
{arr('VH_KIND', kind)}
{arr('VH_STRAT', strat)}
{arr('VH_HEADLESS', [1 if n['headless'] else 0 for n in nodes])}
{arr('VH_NCHILD', [len(n['children']) for n in nodes])}
{arr('VH_CHILD0', child0)}
{arr('VH_CHILDREN', children)}
{arr('VH_REGION_OF', region_of)}
{arr('VH_REGION_HEAD', regions)}
{arr('VH_SUBTREE', [n['size'] for n in nodes])}
{arr('VH_KINDMASK', sj['kindmask'])}
static const vh::Shape VH_SHAPE = {{ {len(nodes)}, {len(regions)}, VH_PARENT, VH_PRONG, VH_KIND, VH_STRAT, VH_HEADLESS, VH_NCHILD, VH_CHILD0, VH_CHILDREN, VH_REGION_OF, VH_REGION_HEAD, VH_SUBTREE }};
static const char* const VH_SHAPE_NAME = "{sj['name']}";
static const int VH_WIDTH1 = {1 if sj['width1'] else 0};
{'#define VH_NO_SERIAL' if sj['width1'] else ''}
#include "vh_node.hpp"
using Config = {cfgchain};
using M = hfsm2::MachineT<Config>;
{decls}
using FSM = {cpp_region(nodes, 0, True)};
#include "vh_inj.hpp"
{defs}
template <typename TM> static void vhFillThis(TM& m, vh::Probe& p) {{
{fill}
}}
static void vhStateIds(int* out) {{
{ids}
}}
static void vhRegionIds(int* out) {{
{rids}
}}
#include "{main}"
'''

MASKABLE = ['preUpdate', 'update', 'postUpdate', 'preReact', 'react', 'postReact', 'query']
def add_masks(sj, seed):
    """C16: some states leave some methods un-overridden (interface logging must then stay silent about them)"""
    r = random.Random(zlib.crc32(sj['desc'].encode()) ^ seed)
    inj = set(sj.get('inj', []))
    mask = {}
    for n in sj['nodes']:
        i = n['id']
        if (n['kind'] != 'L' and n['headless']) or i in inj or r.random() < 0.5: continue
        ms = [m for m in MASKABLE if r.random() < 0.4]
        if ms: mask[str(i)] = ms
    sj['mask'] = mask
    return sj

def shape_id(sj):
    return hashlib.sha1(json.dumps([sj['desc'], sj['cfg']], sort_keys=True).encode()).hexdigest()[:10]

def shape_set(seed, n_random, curated=None, cfg_variants=True, big=(), **kw):
    """curated + seeded random shapes, each with a config derived from the seed"""
    out = []
    rng = random.Random(seed * 7919 + 13)
    def cfg_for(i, nodes):
        c = dict(DEFAULT_CFG)
        if cfg_variants:
            c['manual'] = 1 if rng.random() < 0.5 else 0
            c['bottomup'] = 1 if rng.random() < 0.35 else 0
            c['subst'] = rng.choice([4, 4, 4, 1, 2, 7])
            c['taskcap'] = rng.choice([0, 0, 0, 0, 1, 2, 5])
        return c
    names = list(CURATED) if curated is None else curated
    for nm in names:
        spec = CURATED[nm]
        nodes, _ = number(spec)
        c = cfg_for(nm, nodes); c.update(CURATED_CFG.get(nm, {}) if cfg_variants else {})
        out.append(shape_json(nm, spec, c))
    for nm in big:
        spec = CURATED_BIG[nm]
        nodes, _ = number(spec)
        c = cfg_for(nm, nodes); c['taskcap'] = 0
        out.append(shape_json(nm, spec, c, inj=[]))
    for i in range(n_random):
        spec = rand_spec(rng, **kw)
        nodes, _ = number(spec)
        out.append(shape_json('r%d_%d' % (seed, i), spec, cfg_for(i, nodes)))
    return out

if __name__ == '__main__':
    import sys
    for sj in shape_set(int(sys.argv[1]) if len(sys.argv) > 1 else 0, 6):
        print(sj['name'], len(sj['nodes']), sj['desc'], sj['cfg'])
