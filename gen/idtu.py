#!/usr/bin/env python3
"""C17: light translation unit that prints the identifiers and counts the library publishes for a shape."""
import random
import shapes as shp

def emit(sj, header='<hfsm2/machine.hpp>'):
    nodes, regions = sj['nodes'], sj['regions']
    named = [n['id'] for n in nodes if not (n['kind'] != 'L' and n['headless'])]
    def types(prefix):
        def reg(nid, root=False):
            n = nodes[nid]
            if n['kind'] == 'L': return '%s%d' % (prefix, nid)
            kids = ', '.join(reg(c) for c in n['children'])
            head = '' if n['headless'] else '%s%d, ' % (prefix, nid)
            if n['kind'] == 'C':
                base = '' if n['strategy'] == 'Composite' else n['strategy']
                name = (base + ('PeerRoot' if n['headless'] else 'Root')) if root else ((base if base else 'Composite') + ('Peers' if n['headless'] else ''))
            else:
                name = ('Orthogonal' + ('PeerRoot' if n['headless'] else 'Root')) if root else ('Orthogonal' + ('Peers' if n['headless'] else ''))
            return '%s::%s<%s%s>' % ('MP' if prefix == 'P' else 'M', name, head, kids)
        return reg(0, True)
    decl = lambda p: '\n'.join('struct %s%d;' % (p, i) for i in named)
    out = []
    out.append('#define HFSM2_ENABLE_PLANS\n#define HFSM2_ENABLE_SERIALIZATION\n#define HFSM2_ENABLE_TRANSITION_HISTORY\n#define HFSM2_ENABLE_STRUCTURE_REPORT\n#define HFSM2_ENABLE_UTILITY_THEORY\n#define HFSM2_ENABLE_DEBUG_STATE_TYPE')
    out.append('#include %s\n#include <cstdio>' % header)
    out.append('static int g_seen[%d]; static int g_bad = 0;' % len(nodes))
    out.append('#ifdef HFSM2_VERIF\nextern "C" void hfsm2_verif_break(const char*, int) { ++g_bad; }\n#endif')
    out.append('using M = hfsm2::MachineT<hfsm2::Config>;\nusing MP = hfsm2::MachineT<hfsm2::Config::PayloadT<int>>;      // the peer is declared with a payload type: ids must not depend on it')
    out.append(decl('N')); out.append('using FSM = %s;' % types('N'))
    out.append(decl('P')); out.append('using PEER = %s;' % types('P'))
    for i in named:
        out.append('struct N%d : FSM::State { void enter(PlanControl& c) { g_seen[%d] = (int)c.stateId() + 1; } };' % (i, i))
        out.append('struct P%d : PEER::State {};' % i)
    out.append('int main() {')
    out.append('  printf("{\\"STATE_COUNT\\":%d,\\"REGION_COUNT\\":%d,\\"COMPO_COUNT\\":%d,\\"ORTHO_COUNT\\":%d,\\"ORTHO_UNITS\\":%d,\\"TASK_CAPACITY\\":%d,\\"SERIAL_BITS\\":%d,\\"SERIAL_BYTES\\":%d,", (int)FSM::STATE_COUNT, (int)FSM::REGION_COUNT, (int)FSM::COMPO_COUNT, (int)FSM::ORTHO_COUNT, (int)FSM::ORTHO_UNITS, (int)FSM::TASK_CAPACITY, (int)FSM::SERIAL_BITS, (int)sizeof(FSM::Instance::SerialBuffer));')
    out.append('  printf("\\"sid\\":{"); const char* sep = "";')
    for i in named: out.append('  printf("%%s\\"%d\\":[%%d,%%d]", sep, (int)FSM::stateId<N%d>(), (int)PEER::stateId<P%d>()); sep = ",";' % (i, i, i))
    out.append('  printf("},\\"isid\\":{"); sep = "";')
    for i in named: out.append('  printf("%%s\\"%d\\":[%%d,%%d]", sep, (int)FSM::Instance::stateId<N%d>(), (int)PEER::Instance::stateId<P%d>()); sep = ",";' % (i, i, i))
    out.append('  printf("},\\"irid\\":{"); sep = "";')
    for i in named:
        if nodes[i]['kind'] != 'L': out.append('  printf("%%s\\"%d\\":[%%d,%%d]", sep, (int)FSM::Instance::regionId<N%d>(), (int)PEER::Instance::regionId<P%d>()); sep = ",";' % (nodes[i]['region'], i, i))
    out.append('  printf("},\\"rid\\":{"); sep = "";')
    for i in named:
        if nodes[i]['kind'] != 'L': out.append('  printf("%%s\\"%d\\":[%%d,%%d]", sep, (int)FSM::regionId<N%d>(), (int)PEER::regionId<P%d>()); sep = ",";' % (nodes[i]['region'], i, i))
    out.append('  FSM::Instance m;')
    # make every state enter at least once is impossible in general; report what the initial activation saw
    out.append('  printf("},\\"seen\\":["); for (int i = 0; i < %d; ++i) printf("%%s%%d", i ? "," : "", g_seen[i]); printf("],");' % len(nodes))
    # structural probe: the identifier arithmetic also places sub-trees (prong offsets, orthogonal bit units): every leaf must be
    # reachable by its id, alone and together with a leaf of an orthogonal sibling branch
    leaves = [n['id'] for n in nodes if n['kind'] == 'L']
    def anc(i):
        a = []
        while i >= 0: a.append(i); i = nodes[i]['parent']
        return a
    pairs = []
    rr = random.Random(len(nodes) * 7919 + len(regions))
    cand = []
    for x in leaves:
        ax = anc(x)
        for y in leaves:
            if y <= x: continue
            ay = set(anc(y))
            lca = next(i for i in ax if i in ay)
            if nodes[lca]['kind'] == 'O': cand.append((x, y))
    rr.shuffle(cand); pairs = cand[:150]
    if sum(1 for n in nodes if n['kind'] == 'C') < 2: pairs = []     # the request queue holds COMPO_COUNT requests: a pair needs two slots
    out.append('  int probeFail = 0, probes = 0; const int LEAVES[] = { %s }; const int PAIRS[][2] = { %s };' % (', '.join(map(str, leaves)), ', '.join('{%d,%d}' % p for p in pairs) or '{0,0}'))
    out.append('  const int PARENT[] = { %s };' % ', '.join(str(n['parent']) for n in nodes))
    out.append('  auto chain = [&](int s) { for (; s >= 0; s = PARENT[s]) if (!m.isActive((hfsm2::StateID)s)) return false; return true; };')
    out.append('  for (int d : LEAVES) { m.immediateChangeTo((hfsm2::StateID)d); ++probes; if (!chain(d)) ++probeFail; }')
    out.append('  for (int i = 0; i < %d; ++i) { m.changeTo((hfsm2::StateID)PAIRS[i][0]); m.changeTo((hfsm2::StateID)PAIRS[i][1]); m.update(); ++probes; if (!chain(PAIRS[i][0]) || !chain(PAIRS[i][1])) ++probeFail; }' % len(pairs))
    # a leaf of one orthogonal branch together with restart() of a whole region of another branch
    rcand = []
    for x in leaves:
        ax = anc(x)
        for rn in nodes:
            if rn['kind'] == 'L' or rn['id'] == 0 or rn['id'] in ax: continue
            ar = set(anc(rn['id']))
            lca = next(i for i in ax if i in ar)
            if nodes[lca]['kind'] == 'O' and x not in shp.subtree(nodes, rn['id']): rcand.append((x, rn['id']))
    rr.shuffle(rcand); rpairs = rcand[:150] if sum(1 for n in nodes if n['kind'] == 'C') >= 2 else []
    comp_in = {}
    for x, r in rpairs: comp_in[r] = [c for c in shp.subtree(nodes, r) if nodes[c]['kind'] == 'C']
    out.append('  const int RP[][2] = { %s };' % (', '.join('{%d,%d}' % p for p in rpairs) or '{0,0}'))
    out.append('  auto restarted = [&](int r) { const int SUB[][2] = { %s }; for (auto& e : SUB) if (e[0] == r && m.isActive((hfsm2::StateID)e[1]) && m.activeSubState((hfsm2::StateID)e[1]) != 0) return false; return true; };' % (', '.join('{%d,%d}' % (r, c) for r, cs in comp_in.items() for c in cs) or '{-1,0}'))
    out.append('  for (int i = 0; i < %d; ++i) { for (int o = 0; o < 2; ++o) { if (o == 0) { m.changeTo((hfsm2::StateID)RP[i][0]); m.restart((hfsm2::StateID)RP[i][1]); } else { m.restart((hfsm2::StateID)RP[i][1]); m.changeTo((hfsm2::StateID)RP[i][0]); } m.update(); ++probes; if (!chain(RP[i][0]) || !chain(RP[i][1]) || !restarted(RP[i][1])) ++probeFail; } }' % len(rpairs))
    # the same with a COMPOSITE region as lowest common ancestor: the later request wins there, so after changeTo(leaf); restart(region) the region is
    # active and restarted (its composites were first moved off prong 0). Unit / prong offsets of the two branches must not overlap (seeded change C17f).
    ccand = []
    for x in leaves:
        ax = anc(x)
        for rn in nodes:
            if rn['kind'] == 'L' or rn['id'] == 0 or rn['id'] in ax: continue
            ar = set(anc(rn['id']))
            lca = next(i for i in ax if i in ar)
            between = [i for i in anc(rn['id'])[1:] if i != lca and i not in ax]
            # only orthogonal regions between the common ancestor and the region: with a composite region in between the library used to lose the
            # later request (C02 defect repaired by 06ee120, repro/C02_batch_into_active_orthogonal.cpp), which says nothing about identifiers
            if nodes[lca]['kind'] == 'C' and x not in shp.subtree(nodes, rn['id']) and all(nodes[i]['kind'] == 'O' for i in between): ccand.append((x, rn['id']))
    # curated structures only: they do not depend on the seed, so neither does the verdict of this probe
    fixed_shape = sj['name'].startswith('id_')
    rr.shuffle(ccand); cpairs = ccand[:150] if fixed_shape and sum(1 for n in nodes if n['kind'] == 'C') >= 2 else []
    moves = []
    for x, r in cpairs:
        for c in shp.subtree(nodes, r):
            if nodes[c]['kind'] == 'C' and len(nodes[c]['children']) > 1: moves.append((r, nodes[c]['children'][-1]))
    moves = sorted(set(moves))
    out.append('  const int CP[][2] = { %s }; const int MOVES[][2] = { %s };' % (', '.join('{%d,%d}' % p for p in cpairs) or '{0,0}', ', '.join('{%d,%d}' % p for p in moves) or '{-1,0}'))
    out.append('  auto restarted2 = [&](int r) { const int SUB[][2] = { %s }; for (auto& e : SUB) if (e[0] == r && m.isActive((hfsm2::StateID)e[1]) && m.activeSubState((hfsm2::StateID)e[1]) != 0) return false; return true; };' % (', '.join(sorted(set('{%d,%d}' % (r, c) for x, r in cpairs for c in shp.subtree(nodes, r) if nodes[c]['kind'] == 'C'))) or '{-1,0}'))
    out.append('  for (int i = 0; i < %d; ++i) { for (auto& mv : MOVES) if (mv[0] == CP[i][1]) m.immediateChangeTo((hfsm2::StateID)mv[1]); m.changeTo((hfsm2::StateID)CP[i][0]); m.restart((hfsm2::StateID)CP[i][1]); m.update(); ++probes; if (!chain(CP[i][1]) || !restarted2(CP[i][1])) ++probeFail; }' % len(cpairs))
    out.append('  printf("\\"probes\\":%d,\\"probe_fail\\":%d,", probes, probeFail);')
    out.append('  const auto& st = m.structure(); printf("\\"names\\":["); for (unsigned i = 0; i < st.count(); ++i) printf("%s\\"%s\\"", i ? "," : "", st[i].name ? st[i].name : ""); printf("],");')
    out.append('  printf("\\"active\\":["); for (int i = 0; i < %d; ++i) printf("%%s%%d", i ? "," : "", (int)m.isActive((hfsm2::StateID)i)); printf("],\\"asserts\\":%%d}\\n", g_bad);' % len(nodes))
    out.append('  return 0; }')
    return '\n'.join(out)

def id_shapes(seed, n_random, big):
    """shapes aimed at the type-list arithmetic: wide, deep, orthogonal widths around multiples of 8, headless everywhere"""
    L = ('L',); out = []
    def C(st, kids, headless=False): return ('C', st, headless, kids)
    def O(kids, headless=False): return ('O', headless, kids)
    fixed = {
        'w2': C('Composite', [L, L]), 'w3': C('Resumable', [L, L, L]), 'w5': C('Composite', [L] * 5), 'w7': C('Composite', [L] * 7),
        'w9h': C('Composite', [L] * 9, True), 'w16': C('Resumable', [L] * 16), 'w17': C('Composite', [L] * 17),
        'o7': O([C('Composite', [L, L])] + [L] * 6), 'o8': O([L] * 7 + [C('Resumable', [L, L, L])]), 'o9': O([L] * 4 + [C('Composite', [L, L], True)] + [L] * 4, True), 'o16': C('Composite', [O([L] * 16), L]), 'o17': C('Composite', [L, O([L] * 17, True)]),
        'o9o2': O([O([L] * 8 + [C('Composite', [L, L])]), O([C('Composite', [L, L]), C('Resumable', [L, L])]), C('Composite', [L, L])]),
        'o17o3': O([O([C('Composite', [L, L])] + [L] * 16, True), O([C('Composite', [L, L]), L, C('Composite', [L, L])])]),
        'o8last': C('Composite', [L, O([C('Composite', [L, L])] * 1 + [L] * 7)]),
        # a composite region whose LEFT half of sub-states holds an orthogonal region of two / three bit units and whose RIGHT half holds orthogonal regions:
        # the right half's unit offset must skip all units of the left one (seeded change C17f)
        'c_o9_o': C('Composite', [O([L] * 8 + [C('Composite', [L, L])]), O([O([C('Composite', [L, L]), C('Composite', [L, L])]), L])]),
        'c_o17_o': C('Composite', [O([L] * 17), O([O([C('Composite', [L, L]), C('Composite', [L, L])]), L])]),
        'c_l_o17_o_l': C('Composite', [L, O([L] * 17), O([C('Composite', [L, L]), C('Resumable', [L, L])]), L]),
        'c_nested_o9_o': C('Composite', [L, C('Resumable', [O([C('Composite', [L, L])] + [L] * 8), O([C('Composite', [L, L]), C('Composite', [L, L])])])]),
        'deep8': None, 'mixwide': C('Composite', [C('Resumable', [L] * 3, True), O([L, C('Composite', [L] * 5), L], True), C('Composite', [L] * 6)] * 2, True),
    }
    d = L
    for i in range(8): d = C('Composite', [d, L], headless=(i % 2 == 0)) if i % 3 else O([d, L], headless=(i % 2 == 1))
    fixed['deep8'] = C('Composite', [d, L])
    if big:
        fixed['w33'] = C('Composite', [L] * 33); fixed['w40'] = C('Resumable', [C('Composite', [L, L])] * 20)
        d = L
        for i in range(12): d = C('Resumable', [L, d, L], headless=(i % 2 == 1))
        fixed['deep12'] = d
        fixed['o33'] = O([C('Composite', [L, L], True)] * 33)
        fixed['serial_big'] = O([C('Composite', [L, L], True)] * 90, True)
    for nm, spec in fixed.items(): out.append(shp.shape_json('id_' + nm, spec, dict(shp.DEFAULT_CFG), inj=[]))
    rng = random.Random(seed * 31 + 5)
    for i in range(n_random):
        spec = shp.rand_spec(rng, depth=rng.choice([3, 4, 5, 6]), max_width=rng.choice([3, 4, 6, 9]), p_leaf=rng.choice([0.3, 0.45]), p_ortho=0.35, p_headless=0.4, strategies=['Composite', 'Resumable'], min_states=3, max_states=(160 if big else 70))
        out.append(shp.shape_json('idr%d_%d' % (seed, i), spec, dict(shp.DEFAULT_CFG), inj=[]))
    return out
