// Instrumented state template. Requires: hfsm2 header, vh.hpp, macro VH_PAYLOAD (payload type or void).
#pragma once

namespace vh {

#ifndef VH_NO_PAYLOAD
using Payload = VH_PAYLOAD;
using PIO = PayloadIO<Payload>;
#endif

// issue a request of kind kk through any control / instance exposing the request API
template <typename C>
static inline void issueReq(C& c, int kk, int dest, int id, bool noPayload = false) {
	const hfsm2::StateID d = (hfsm2::StateID)dest;
#ifndef VH_NO_PAYLOAD
	const Payload pl = PIO::make(id);
	if (noPayload) switch (kk) {
		case 0: c.changeTo(d); return;
		case 1: c.restart(d); return;
		case 2: c.resume(d); return;
		case 3: c.select(d); return;
#ifdef HFSM2_ENABLE_UTILITY_THEORY
		case 4: c.utilize(d); return;
		case 5: c.randomize(d); return;
#endif
		default: c.schedule(d); return;
	}
	switch (kk) {
		case 0: c.changeWith(d, pl); break;
		case 1: c.restartWith(d, pl); break;
		case 2: c.resumeWith(d, pl); break;
		case 3: c.selectWith(d, pl); break;
#ifdef HFSM2_ENABLE_UTILITY_THEORY
		case 4: c.utilizeWith(d, pl); break;
		case 5: c.randomizeWith(d, pl); break;
#endif
		default: c.scheduleWith(d, pl); break;
	}
#else
	(void)id;
	switch (kk) {
		case 0: c.changeTo(d); break;
		case 1: c.restart(d); break;
		case 2: c.resume(d); break;
		case 3: c.select(d); break;
#ifdef HFSM2_ENABLE_UTILITY_THEORY
		case 4: c.utilize(d); break;
		case 5: c.randomize(d); break;
#endif
		default: c.schedule(d); break;
	}
#endif
}

// pick (kind, dest) within the static permissions of the shape; returns false if nothing allowed
static inline bool pickReq(Probe& p, const short* kindMask, int& kk, int& dest) {
	const int n = p.sh->nStates;
	for (int tries = 0; tries < 4; ++tries) {
		dest = (int)(p.next() % (uint64_t)n);
		int allowed = kindMask[dest] & p.k.kinds;
		if (dest == 0) allowed &= ~(1 << 6);
		if (!allowed) continue;
		int cnt = 0; for (int b = 0; b < 7; ++b) if (allowed & (1 << b)) ++cnt;
		int pick = (int)(p.next() % (uint64_t)cnt);
		for (int b = 0; b < 7; ++b) if (allowed & (1 << b)) { if (pick-- == 0) { kk = b; return true; } }
	}
	return false;
}

template <typename T>
static inline int transId(const T& t) {
#ifndef VH_NO_PAYLOAD
	return t.payload() ? PIO::id(*t.payload()) : -1;
#else
	(void)t; return -1;
#endif
}

// in-callback well-formedness check through any object exposing isActive / activeSubState
template <typename C>
static inline int wfCheck(const C& c, const Shape& sh, bool expectRootActive) {
	int bad = 0;
	if ((bool)c.isActive((hfsm2::StateID)0) != expectRootActive) bad |= 1;
	for (int s = 1; s < sh.nStates; ++s) {
		const bool a = c.isActive((hfsm2::StateID)s);
		const int par = sh.parent[s];
		if (a && !c.isActive((hfsm2::StateID)par)) bad |= 2;
	}
	for (int s = 0; s < sh.nStates; ++s) {
		if (sh.kind[s] == 0) continue;
		const bool a = c.isActive((hfsm2::StateID)s);
		int cnt = 0, which = -1;
		for (int i = 0; i < sh.nChild[s]; ++i) if (c.isActive((hfsm2::StateID)sh.child(s, i))) { ++cnt; which = i; }
		if (sh.kind[s] == 1) {
			const int sub = (int)c.activeSubState((hfsm2::StateID)s);
			if (a) { if (cnt != 1) bad |= 4; else if (sub != which) bad |= 8; }
			else { if (cnt != 0) bad |= 2; if (sub != (int)hfsm2::INVALID_PRONG) bad |= 16; }
		} else {
			if (a && cnt != sh.nChild[s]) bad |= 32;
			if (!a && cnt != 0) bad |= 2;
		}
	}
	return bad;
}

} // namespace vh
#include "vh_plan.hpp"
namespace vh {

//------------------------------------------------------------------------------

static inline int regionOfState(int s) { return VH_KIND[s] != 0 ? VH_REGION_OF[s] : VH_REGION_OF[VH_PARENT[s]]; }

template <int ID, int W, typename Base>
struct Node : Base {
	using typename Base::Control; using typename Base::PlanControl; using typename Base::FullControl;
	using typename Base::GuardControl; using typename Base::EventControl; using typename Base::ConstControl;

	static Probe& P(const Control& c) { return const_cast<Probe&>(c.context()); }
	static Probe& P(const ConstControl& c) { return const_cast<Probe&>(c.context()); }

	template <typename C>
	void rec(Probe& p, int meth, const C& c) const {
		++p.callbacks;
		if ((int)c.stateId() != ID) { p.log->tag('V'); p.log->s("C03.stateId"); p.log->i(meth); p.log->i(ID); p.log->i((int)c.stateId()); p.log->nl(); }
		const void* self = static_cast<const void*>(this);
		if (p.expectThis[ID]) { if (p.expectThis[ID] != self) { ++p.thisViolations; p.log->tag('V'); p.log->s("C03.this"); p.log->i(meth); p.log->i(ID); p.log->nl(); } }
		else if (!p.firstThis[ID]) p.firstThis[ID] = self;
		else if (p.firstThis[ID] != self) { ++p.thisViolations; p.log->tag('V'); p.log->s("C03.this-unstable"); p.log->i(meth); p.log->i(ID); p.log->nl(); }
		if (!p.quiet) { p.log->tag('c'); p.log->i(meth); p.log->i(ID); p.log->nl(); }
	}
	template <typename C>
	void wf(Probe& p, const C& c, int meth) const {
		if (p.k.wfEvery <= 0 || (++p.cbCounter % (uint64_t)p.k.wfEvery) != 0) return;
		++p.wfChecks;
		const int bad = wfCheck(c, *p.sh, !p.activating);
		if (bad) { ++p.wfViolations; p.log->tag('V'); p.log->s("C01.wf-in-callback"); p.log->i(meth); p.log->i(ID); p.log->i(bad); p.log->nl(); }
	}

	// ---- pure answers
	static void arec(Probe& p, int meth) { ++p.callbacks; if (p.k.logAnswers && !p.quiet) { p.log->tag('a'); p.log->i(meth); p.log->i(ID); p.log->nl(); } }
	hfsm2::Prong select(const Control& c) { Probe& p = P(c); arec(p, 1); return (hfsm2::Prong)p.ansSelect(ID, W); }
#ifdef HFSM2_ENABLE_UTILITY_THEORY
	typename Base::Rank rank(const Control& c) { Probe& p = P(c); arec(p, 2); return (typename Base::Rank)p.ansRank(ID); }
	typename Base::Utility utility(const Control& c) { Probe& p = P(c); arec(p, 3); return p.ansUtil(ID); }
#endif

	// ---- guards
	void guard(GuardControl& c, int which) {
		Probe& p = c.context();
		rec(p, which ? 14 : 4, c);
		if (p.quiet) return;
		++p.guardCalls;
		wf(p, c, which ? 14 : 4);
		const auto& pend = c.pendingTransitions();
		const bool cancel = !p.noCancel && !p.passive && p.chance(p.k.pGuardCancel);
		int kk = 0, dest = 0, id = 0; bool issue = false;
		if (!p.passive && p.chance(p.k.pGuardIssue) && pickReq(p, VH_KINDMASK, kk, dest)) { issue = true; id = p.newId(); }
		Log& L = *p.log;
		L.tag('g'); L.i(which); L.i(ID); L.i(cancel || p.injCancel); L.i((int)pend.count()); p.injCancel = false;
		for (unsigned i = 0; i < pend.count(); ++i) { L.i(transId(pend[i])); L.i((int)pend[i].type); L.i((int)pend[i].destination); L.i(pend[i].origin == hfsm2::INVALID_STATE_ID ? -1 : (int)pend[i].origin); }
		L.i((int)c.currentTransitions().count());
		L.nl();
		// the pending-query vectors, once per round that has a single pending request (first guard of the round)
		const long pendSig = pend.count() == 1 ? (long)transId(pend[0]) * 64 + (long)pend[0].type * 8 + (long)(pend[0].destination & 7) : -1;
		const bool newRound = pendSig != p.lastPendSig; p.lastPendSig = pendSig;
		if (p.k.pendq && pend.count() == 1 && newRound) {
			std::string e, x, g;
			for (int s = 0; s < p.sh->nStates; ++s) { e.push_back(c.isPendingEnter((hfsm2::StateID)s) ? '1' : '0'); x.push_back(c.isPendingExit((hfsm2::StateID)s) ? '1' : '0'); g.push_back(c.isPendingChange((hfsm2::StateID)s) ? '1' : '0'); }
			L.tag('p'); L.s(e); L.s(x); L.s(g); L.nl();
		}
		if (issue) { const bool np = false; /* substitutes always carry an id: rounds stay distinguishable */ L.tag('q'); L.i(kk); L.i(dest); L.i(id); L.i(ID); L.i(np); L.nl(); issueReq(c, kk, dest, id, np); }
		if (cancel) c.cancelPendingTransitions();
	}
	void entryGuard(GuardControl& c) { guard(c, 0); }
	void exitGuard (GuardControl& c) { guard(c, 1); }

	// ---- lifecycle
	void enter(PlanControl& c) {
		Probe& p = c.context(); rec(p, 5, c);
		if (p.quiet) return;
		const auto& cur = c.currentTransitions();
		Log& L = *p.log; L.tag('e'); L.i(ID); L.i((int)cur.count());
		for (unsigned i = 0; i < cur.count(); ++i) L.i(transId(cur[i]));
		L.nl();
		planEdit(c, p);
	}
	void reenter(PlanControl& c) { rec(c.context(), 6, c); }
	void exit(PlanControl& c) { rec(c.context(), 15, c); }

	// ---- update family
	template <typename C>
	void act(C& c, int meth) {
		Probe& p = c.context(); rec(p, meth, c);
		if (p.quiet) return;
		wf(p, c, meth);
		if (p.passive) return;
#ifdef HFSM2_ENABLE_TRANSITION_HISTORY
		if (meth == 8 && p.k.pendq) { const auto* t = c.lastTransition(); if (t) { p.log->tag('l'); p.log->i(ID); p.log->i(transId(*t)); p.log->nl(); } }
#endif
		if (p.chance(p.k.pIssue)) {
			int kk, dest;
			if (pickReq(p, VH_KINDMASK, kk, dest)) { const int id = p.newId(); const bool np = p.chance(p.k.pNoPayload); p.log->tag('q'); p.log->i(kk); p.log->i(dest); p.log->i(id); p.log->i(ID); p.log->i(np); p.log->nl(); issueReq(c, kk, dest, id, np); }
		}
#ifdef HFSM2_ENABLE_PLANS
		if (p.k.pSucceed || p.k.pFail) {
			// the phase in which a state reports is a pure function of (step, state): pre / update / post (react: pre/react/post)
			const int phase = (meth == 7 || meth == 10) ? 0 : (meth == 8 || meth == 11) ? 1 : 2;
			if ((int)(p.h(ID, 7) % 3) == phase && ID != 0) {
				const bool isHead = W > 0;
				if (!isHead || p.chance(p.k.pHeadStatus)) {
					const int r = (int)(p.next() % 1000);
					if (r < p.k.pSucceed) { p.log->tag('s'); p.log->i(0); p.log->i(ID); p.log->i(meth); p.log->nl(); c.succeed(); }
					else if (r < p.k.pSucceed + p.k.pFail) { p.log->tag('s'); p.log->i(1); p.log->i(ID); p.log->i(meth); p.log->nl(); c.fail(); }
				}
			}
		}
		if (meth == 8) planEdit(c, p);
#endif
	}
	void preUpdate (FullControl& c) { act(c, 7); }
	void update    (FullControl& c) { act(c, 8); }
	void postUpdate(FullControl& c) { act(c, 9); }

	template <typename E>
	void reactAct(const E&, EventControl& c, int meth) {
		Probe& p = c.context();
		act(c, meth);
		if (p.quiet || p.passive) return;
		if (p.k.pConsume && (int)(p.h(ID, 40 + meth) % 1000) < p.k.pConsume) { p.log->tag('k'); p.log->i(meth); p.log->i(ID); p.log->nl(); c.consumeEvent(); }
	}
	template <typename E> void preReact (const E& e, EventControl& c) { reactAct(e, c, 10); }
	template <typename E> void react    (const E& e, EventControl& c) { reactAct(e, c, 11); }
	template <typename E> void postReact(const E& e, EventControl& c) { reactAct(e, c, 13); }

	template <typename Q>
	void query(Q& q, ConstControl& c) const {
		Probe& p = P(c); rec(p, 12, c);
		if (p.quiet) return;
		++q.visited;
		wf(p, c, 12);
		if (p.k.pConsume && (int)(p.h(ID, 40 + 12) % 1000) < p.k.pConsume) { p.log->tag('k'); p.log->i(12); p.log->i(ID); p.log->nl(); c.consumeQuery(); }
	}

#ifdef HFSM2_ENABLE_PLANS
	void planSucceeded(FullControl& c) {
		Probe& p = c.context(); rec(p, 16, c);
		const bool prop = p.quiet || p.passive || p.chance(p.k.pPropagate);
		if (!p.quiet) { p.log->tag('n'); p.log->i(0); p.log->i(ID); p.log->i(prop); p.log->nl(); }
		if (prop) c.succeed();		// what the default handler does (Base:: is ambiguous with two injected layers)
	}
	void planFailed(FullControl& c) {
		Probe& p = c.context(); rec(p, 17, c);
		const bool prop = p.quiet || p.passive || p.chance(p.k.pPropagate);
		if (!p.quiet) { p.log->tag('n'); p.log->i(1); p.log->i(ID); p.log->i(prop); p.log->nl(); }
		if (prop) c.fail();
	}
	// plan edits from callbacks: append a task to the plan of the callback's own region
	template <typename C>
	void planEdit(C& c, Probe& p) {
		if (p.passive || !p.chance(p.k.pPlanInCb)) return;
		if (p.next() % 5 == 0) planRemove(c.plan(), p, regionOfState(ID), (int)(p.next() % 4), ID);
		else vhPlanAppend(c.plan(), p, regionOfState(ID), ID);
	}
#else
	template <typename C> void planEdit(C&, Probe&) {}
#endif
};

struct ScriptedRng {
	Probe* p;
	float next() { return p->ansRng(); }
};

} // namespace vh
