// Plan helpers: appending tasks with unique ids, dumping plans. Included by vh_node.hpp (after Payload is known).
#pragma once

namespace vh {

#ifdef HFSM2_ENABLE_PLANS

template <typename TPlan>
static inline bool planAppendKind(TPlan& plan, int kk, int origin, int dest, int id, bool noPayload) {
	const hfsm2::StateID o = (hfsm2::StateID)origin, d = (hfsm2::StateID)dest;
#ifndef VH_NO_PAYLOAD
	const Payload pl = PIO::make(id);
	if (!noPayload) switch (kk) {
		case 0: return plan.changeWith(o, d, pl);
		case 1: return plan.restartWith(o, d, pl);
		case 2: return plan.resumeWith(o, d, pl);
		case 3: return plan.selectWith(o, d, pl);
#ifdef HFSM2_ENABLE_UTILITY_THEORY
		case 4: return plan.utilizeWith(o, d, pl);
		case 5: return plan.randomizeWith(o, d, pl);
#endif
		default: return plan.scheduleWith(o, d, pl);
	}
#else
	(void)id; (void)noPayload;
#endif
	switch (kk) {
		case 0: return plan.change(o, d);
		case 1: return plan.restart(o, d);
		case 2: return plan.resume(o, d);
		case 3: return plan.select(o, d);
#ifdef HFSM2_ENABLE_UTILITY_THEORY
		case 4: return plan.utilize(o, d);
		case 5: return plan.randomize(o, d);
#endif
		default: return plan.schedule(o, d);
	}
}

// append one random task to `plan`, which belongs to region index `region` (head state VH_REGION_HEAD[region])
template <typename TPlan>
bool vhPlanAppend(TPlan plan, Probe& p, int region, int src) {
	const Shape& sh = *p.sh;
	const int head = sh.regionHead[region];
	const int size = sh.subtree[head];
	if (size < 2) return false;
	int origin = head + 1 + (int)(p.next() % (uint64_t)(size - 1));
	int kk, dest;
	if (!pickReq(p, VH_KINDMASK, kk, dest)) return false;
	if (dest == 0) dest = origin;
	if (p.next() % 10 < 2) dest = origin;			// cyclic task
	if (dest == origin) { if (!((VH_KINDMASK[dest] >> kk) & 1)) kk = 0; }
	const int id = p.newId();
	const bool np = p.chance(p.k.pNoPayload);			// a task without payload (logged with id -1)
	const bool ok = planAppendKind(plan, kk, origin, dest, id, np);
	Log& L = *p.log; L.tag('A'); L.i(region); L.i(origin); L.i(dest); L.i(kk); L.i(np ? -1 : id); L.i(ok); L.i(src); L.nl();
	return ok;
}

// remove tasks while iterating: mode 0 first, 1 middle, 2 last, 3 all
template <typename TPlan>
static inline void planRemove(TPlan plan, Probe& p, int region, int mode, int src) {
	int n = 0;
	for (auto it = plan.begin(); it && n < 100000; ++it) ++n;
	if (!n) return;
	const int target = mode == 0 ? 0 : mode == 1 ? n / 2 : n - 1;
	int i = 0;
	for (auto it = plan.begin(); it && i < 100000; ++it, ++i) {
		if (mode == 3 || i == target) {
			Log& L = *p.log; L.tag('X'); L.i(region); L.i(i); L.i(transId(*it)); L.i(src); L.nl();
			it.remove();
		}
	}
}

// dump one region's plan:  'J region n (origin dest kind id)*'; iteration is bounded so that a cyclic list is detected, not hung on
template <typename TPlan>
static inline void planDump(TPlan plan, Log& L, int region, int cap, char tag) {
	L.tag(tag); L.i(region);
	int n = 0; std::string body;
	std::vector<long> v;
	for (auto it = plan.begin(); it; ++it) {
		if (++n > cap + 1) break;
		v.push_back((long)it->origin); v.push_back((long)it->destination); v.push_back((long)it->type); v.push_back(transId(*it));
	}
	L.i(n);
	for (long x : v) L.i(x);
	L.nl();
}

// the same list read through a const Plan handle (its own iterator type)
template <typename TPlan>
static inline void planDumpConst(const TPlan& plan, Log& L, int region, int cap, char tag) {
	L.tag(tag); L.i(region);
	int n = 0;
	std::vector<long> v;
	for (auto it = plan.begin(); it; ++it) {
		if (++n > cap + 1) break;
		v.push_back((long)it->origin); v.push_back((long)it->destination); v.push_back((long)it->type); v.push_back(transId(*it));
	}
	L.i(n);
	for (long x : v) L.i(x);
	L.nl();
}

#endif

} // namespace vh
