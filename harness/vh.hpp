// Verification harness: probe (context), director knobs, event log, instrumented state template.
// Included by every generated translation unit *after* <hfsm2/machine.hpp> (or machine_dev.hpp)
// and after the static shape tables (VH_*).  No library internals are touched: everything goes
// through the public API and the Control objects handed to callbacks.
#pragma once
#include <cstdint>
#include <cstdio>
#include <cstdlib>
#include <cstring>
#include <string>
#include <vector>

namespace vh {

static inline uint64_t mix(uint64_t z) {
	z += 0x9e3779b97f4a7c15ull;
	z = (z ^ (z >> 30)) * 0xbf58476d1ce4e5b9ull;
	z = (z ^ (z >> 27)) * 0x94d049bb133111ebull;
	return z ^ (z >> 31);
}

//------------------------------------------------------------------------------
// event log: one line per event, "<tag> int int ...", flushed per API operation

struct Log {
	FILE* f = nullptr;
	std::string buf;
	bool on = true;			// ordinary events are recorded
	bool cur = true;		// the line being written is recorded
	std::string pending;	// complete lines produced while another line was being composed (assertion hits)
	uint64_t lines = 0;

	// violation / assertion / summary lines are always recorded
	void tag(char t) { cur = on || t == 'V' || t == 'B' || t == 'Z' || t == 'H'; if (cur) buf.push_back(t); }
	void i(long v) {
		if (!cur) return;
		char tmp[24]; int n = 0; bool neg = v < 0; unsigned long u = neg ? (unsigned long)(-v) : (unsigned long)v;
		do { tmp[n++] = (char)('0' + u % 10); u /= 10; } while (u);
		buf.push_back(' '); if (neg) buf.push_back('-');
		while (n) buf.push_back(tmp[--n]);
	}
	void s(const char* str) { if (cur) { buf.push_back(' '); buf += str; } }
	void s(const std::string& str) { if (cur) { buf.push_back(' '); buf += str; } }
	void nl() { if (cur) { buf.push_back('\n'); ++lines; } if (!pending.empty() && (buf.empty() || buf.back() == '\n')) { buf += pending; pending.clear(); } if (buf.size() > (1u << 16)) flush(); }
	void flush() { if (f && !buf.empty()) fwrite(buf.data(), 1, buf.size(), f); buf.clear(); }
};

//------------------------------------------------------------------------------
// knobs set by the profile (argv key=value)

struct Knobs {
	int pIssue		= 30;	// per-mille: an update/react callback issues a request
	int pGuardCancel= 100;	// per-mille: a guard cancels
	int pGuardIssue	= 60;	// per-mille: a guard issues a (substitute) request
	int pConsume	= 0;	// per-mille: a react/query callback consumes
	int pSucceed	= 0;	// per-mille: an update-family callback calls succeed()
	int pFail		= 0;	// per-mille: ... fail()
	int pHeadStatus	= 0;	// per-mille: region heads take part in succeed/fail at all
	int pPropagate	= 700;	// per-mille: planSucceeded/planFailed call the default handler
	int pPlanInCb	= 0;	// per-mille: enter()/update() edits the region's plan
	int kinds		= 0x7f;	// allowed request kinds (bit per TransitionType)
	int maxBatch	= 3;	// external requests per step: 0..maxBatch
	int wfEvery		= 7;	// in-callback well-formedness check every n-th eligible callback
	int palette		= 0;	// rng palette: 0 mixed, 1 hostile (near 0 / near 1 / dyadic boundaries)
	int zeroUtil	= 1;	// allow zero utilities where the precondition stays satisfied
	int pInjCancel	= 0;	// per-mille: an injected (StateT<...>) guard cancels the pending transitions
	int fineUtil	= 0;	// utilities with full 24-bit mantissas (sums and products round) instead of multiples of 1/8
	int pendq		= 1;	// log isPending vectors in the first guard of single-request rounds
	int structDump	= 0;	// dump structure() / activityHistory() after each operation
	int logAnswers	= 0;	// record select/rank/utility callbacks too ('a' lines)
	int pNoPayload	= 0;	// per-mille: a request is issued without payload
	int planDump	= 0;	// dump every region's plan after each operation (Plan and CPlan iteration)
};

//------------------------------------------------------------------------------
// shape tables (generated per translation unit)

struct Shape {
	int nStates, nRegions;
	const short *parent, *prong, *kind /*0 leaf 1 compo 2 ortho*/, *strat /*0..4, -1*/, *headless, *nChild, *child0, *children, *regionOf, *regionHead, *subtree;
	int child(int s, int i) const { return children[child0[s] + i]; }
	bool leaf(int s) const { return kind[s] == 0; }
};

//------------------------------------------------------------------------------

struct Probe {
	int			inst = 0;			// instance index
	uint64_t	seed = 1;
	uint64_t	step = 0;			// operation counter: pure answers are functions of (seed, step, state)
	uint64_t	s = 0x1234567;		// director prng state
	int			draws = 0;			// generator calls in this operation
	int			nextId = 1;			// unique ids for requests / tasks
	int*		idSource = nullptr;	// shared id counter (ids unique across instances)
	bool		quiet = false;		// callbacks neither act nor log (used while preparing)
	bool		passive = false;	// callbacks log but take no director actions (replica / copies)
	bool		noCancel = false;	// guards never cancel (first activation)
	bool		activating = false;	// inside the first activation: the machine is not activated yet
	int			guardCalls = 0;		// per operation
	bool		injCancel = false;	// an injected guard of the state being guarded has just cancelled
	long		lastPendSig = -2;	// per operation: the single pending request the previous guard call saw (a new one = a new round)
	uint64_t	callbacks = 0, wfChecks = 0, wfViolations = 0;
	uint64_t	cbCounter = 0;
	const void*	expectThis[1024] = {};
	const void*	firstThis[1024] = {};
	uint64_t	thisViolations = 0;
	Knobs		k;
	Log*		log = nullptr;
	const Shape* sh = nullptr;

	uint64_t next() { s = mix(s); return s; }
	bool chance(int permille) { return permille > 0 && (int)(next() % 1000) < permille; }
	uint64_t h(int state, int what) const { return mix(seed * 1000003u + step * 131u + (uint64_t)state * 7u + (uint64_t)what); }
	int newId() { return idSource ? (*idSource)++ : nextId++; }

	// ---- pure answers (re-implemented identically by the Python oracle)
	int ansSelect(int state, int width) const { return (int)(h(state, 1) % (uint64_t)(width > 0 ? width : 1)); }
	int ansRank(int state) const {
		const int par = sh->parent[state];
		int r = k.fineUtil ? (int)(h(state, 2) % 5 == 0) : (int)(h(state, 2) % 3);		// fine mode: mostly one rank, so that most candidates compete
		(void)par;
		return r;
	}
	// utility in multiples of 1/8 (exact in float). Zero only for plain states that are not the
	// first sub-state of a utilitarian/random region and whose rank does not exceed the first
	// sub-state's rank (keeps "positive top-rank sum" true by construction).
	int ansUtil8(int state) const {
		int u = (int)(h(state, 3) % (k.fineUtil ? 3u : 9u));			// 0..8 (fine mode: only zero / non-zero matters, zero more often)
		if (u == 0) {
			bool ok = false;
			if (k.zeroUtil) {
				const int par = sh->parent[state];
				if (par >= 0 && sh->leaf(state) && sh->kind[par] == 1 && sh->strat[par] >= 3 && sh->prong[state] > 0) {
					const int first = sh->child(par, 0);
					ok = ansRank(state) <= ansRank(first);
				}
				// a region head below an orthogonal region, not its first sub-state: the mean over the orthogonal region's
				// sub-states stays positive, and a region with utility 0 may still be entered with its siblings
				if (par >= 0 && !sh->leaf(state) && sh->kind[par] == 2 && sh->prong[state] > 0) ok = true;
			}
			if (!ok) u = 1 + (int)(h(state, 4) % 8);
		}
		return u;
	}
	float ansUtil(int state) const {
		const int u8 = ansUtil8(state);
		if (k.fineUtil && u8 != 0) return (float)((h(state, 5) & 0xffffffu) + 1u) * (1.0f / 16777216.0f);
		return 0.125f * (float)u8;
	}
	float ansRng() {
		const int d = ++draws;
		const uint64_t x = h(1000 + d, 99);
		static const float hostile[] = { 0.0f, 0.99999994f, 0.9999999f, 0.5f, 0.25f, 0.75f, 0.125f, 0.875f, 0.375f, 0.625f, 0.33333334f, 0.6666667f, 1.17549435e-38f, 0.49999997f, 0.50000006f, 0.9f };
		if (k.palette == 2) { if ((x >> 8) & 1) return 0.99999994f; if ((x >> 9) & 1) return 0.9999999f; }		// mostly just below 1: the cumulative walk ends by rounding
		else if (k.palette == 1 || (x & 3) == 0) return hostile[(x >> 8) % 16];
		return (float)((x >> 16) & 0xffffff) / 16777216.0f;	// uniform 24-bit
	}
};

//------------------------------------------------------------------------------
// payload: every request and task carries a unique id

template <typename T> struct PayloadIO;
template <> struct PayloadIO<int> {
	static int make(int id) { return id; }
	static int id(const int& p) { return p; }
};
// Pod24: constant head, the id only in the tail (a copy or comparison that stops early keeps a stale id)
struct Pod24 { int tag; char pad[9]; int id; int id2; char tail[3]; };
template <> struct PayloadIO<Pod24> {
	static Pod24 make(int id) { Pod24 p; memset(&p, 0x5a, sizeof p); p.tag = 0x600df00d; p.id = id; p.id2 = ~id; return p; }
	static int id(const Pod24& p) { return (p.tag == 0x600df00d && p.id2 == ~p.id && p.pad[0] == 0x5a && p.tail[2] == 0x5a) ? p.id : -777; }
};
// Big64: over-aligned, the id at both ends (a partial copy makes them disagree)
struct alignas(32) Big64 { int id; char fill[56]; int id2; };
template <> struct PayloadIO<Big64> {
	static Big64 make(int id) { Big64 p; memset(&p, 0xa5, sizeof p); p.id = id; p.id2 = id ^ 0x55aa55aa; return p; }
	static int id(const Big64& p) { if ((reinterpret_cast<uintptr_t>(&p) & 31u) != 0) return -778; return (p.id2 == (p.id ^ 0x55aa55aa) && (unsigned char)p.fill[0] == 0xa5 && (unsigned char)p.fill[55] == 0xa5) ? p.id : -777; }
};
enum class Tiny : unsigned char {};
template <> struct PayloadIO<Tiny> {
	static Tiny make(int id) { return (Tiny)(unsigned char)(id & 0xff); }
	static int id(const Tiny& p) { return (int)(unsigned char)p; }
};

struct Evt  { int id; };
struct Evt2 { int id; };
struct Qry  { int visited; };

} // namespace vh
