// Driver: seeded walk over the public API of instances of the generated machine.
// argv: key=value ...   (steps, seed, log, knobs, op weights)
#pragma once
#include <csignal>
#include <unistd.h>
#include <execinfo.h>
#include <new>
#include <thread>

using Instance = FSM::Instance;

#ifdef HFSM2_VERIF
static thread_local long g_assertHits = 0;
static thread_local vh::Log* g_log = nullptr;
extern "C" void hfsm2_verif_break(const char* file, int line) {
	++g_assertHits;
	if (g_log && g_assertHits <= 3000) { const char* b = strrchr(file, '/'); g_log->pending += "B "; g_log->pending += (b ? b + 1 : file); g_log->pending += ' '; g_log->pending += std::to_string(line); g_log->pending += '\n'; }
}
#endif

#ifdef VH_ALLOC_HOOK
// allocation interposition: the library must not allocate; the window is [opBegin .. opEnd) with logging off
static volatile int g_inLib = 0; static long g_libAllocs = 0; static long g_firstAllocStep = -1; static long g_curStep = 0;
extern "C" void* __libc_malloc(size_t); extern "C" void __libc_free(void*); extern "C" void* __libc_calloc(size_t, size_t); extern "C" void* __libc_realloc(void*, size_t);
static inline void vhNoteAlloc() { if (g_inLib) { if (!g_libAllocs) g_firstAllocStep = g_curStep; ++g_libAllocs; } }
extern "C" void* malloc(size_t n) { vhNoteAlloc(); return __libc_malloc(n); }
extern "C" void* calloc(size_t a, size_t b) { vhNoteAlloc(); return __libc_calloc(a, b); }
extern "C" void* realloc(void* p, size_t n) { vhNoteAlloc(); return __libc_realloc(p, n); }
extern "C" void free(void* p) { __libc_free(p); }
void* operator new(size_t n) { vhNoteAlloc(); void* p = __libc_malloc(n ? n : 1); if (!p) abort(); return p; }
void* operator new[](size_t n) { vhNoteAlloc(); void* p = __libc_malloc(n ? n : 1); if (!p) abort(); return p; }
void operator delete(void* p) noexcept { __libc_free(p); }
void operator delete[](void* p) noexcept { __libc_free(p); }
void operator delete(void* p, size_t) noexcept { __libc_free(p); }
void operator delete[](void* p, size_t) noexcept { __libc_free(p); }
#define VH_LIB_ENTER(step) do { g_curStep = (long)(step); g_inLib = 1; } while (0)
#define VH_LIB_LEAVE() do { g_inLib = 0; } while (0)
#else
#define VH_LIB_ENTER(step) do {} while (0)
#define VH_LIB_LEAVE() do {} while (0)
#endif

static void vhAlarm(int) {
	void* bt[48]; int n = backtrace(bt, 48);
	const char msg[] = "VH: WATCHDOG\n"; (void)!write(2, msg, sizeof msg - 1);
	backtrace_symbols_fd(bt, n, 2);
	_exit(4);
}

namespace vh {

// storage for an instance: exact size (ASan red zones abut), aligned as the type demands (over-aligned payloads)
static inline void* vhAlloc(size_t n) {
	void* p = nullptr;
	const size_t al = alignof(Instance) > sizeof(void*) ? alignof(Instance) : sizeof(void*);
	if (posix_memalign(&p, al, n) != 0) abort();
	return p;
}

#ifdef HFSM2_ENABLE_LOG_INTERFACE
struct VLogger : FSM::Logger {
	Probe* p = nullptr;
	bool verboseMethods = false;
	using Context = typename FSM::Logger::Context;
	void recordMethod(const Context&, const hfsm2::StateID origin, const hfsm2::Method method) override {
		if (p->quiet || !verboseMethods) return;
		p->log->tag('M'); p->log->i((int)method); p->log->i((int)origin); p->log->nl();
	}
	void recordTransition(const Context&, const hfsm2::StateID origin, const hfsm2::TransitionType t, const hfsm2::StateID target) override {
		if (p->quiet) return;
		p->log->tag('t'); p->log->i((int)t); p->log->i((int)target); p->log->i(origin == hfsm2::INVALID_STATE_ID ? -1 : (int)origin); p->log->nl();
	}
#ifdef HFSM2_ENABLE_PLANS
	void recordTaskStatus(const Context&, const hfsm2::StateID region, const hfsm2::StateID origin, const hfsm2::StatusEvent e) override {
		if (p->quiet) return;
		p->log->tag('u'); p->log->i((int)region); p->log->i((int)origin); p->log->i((int)e); p->log->nl();
	}
	void recordPlanStatus(const Context&, const hfsm2::StateID region, const hfsm2::StatusEvent e) override {
		if (p->quiet) return;
		p->log->tag('w'); p->log->i((int)region); p->log->i((int)e); p->log->nl();
	}
#endif
	void recordCancelledPending(const Context&, const hfsm2::StateID origin) override {
		if (p->quiet) return;
		p->log->tag('x'); p->log->i((int)origin); p->log->nl();
	}
	void recordSelectResolution(const Context&, const hfsm2::StateID head, const hfsm2::Prong prong) override {
		if (p->quiet) return;
		p->log->tag('r'); p->log->i(0); p->log->i((int)head); p->log->i((int)prong); p->log->nl();
	}
#ifdef HFSM2_ENABLE_UTILITY_THEORY
	void recordUtilityResolution(const Context&, const hfsm2::StateID head, const hfsm2::Prong prong, const float u) override {
		if (p->quiet) return;
		p->log->tag('r'); p->log->i(1); p->log->i((int)head); p->log->i((int)prong); p->log->i((long)(u * 16777216.0f)); p->log->nl();
	}
	void recordRandomResolution(const Context&, const hfsm2::StateID head, const hfsm2::Prong prong, const float u) override {
		if (p->quiet) return;
		p->log->tag('r'); p->log->i(2); p->log->i((int)head); p->log->i((int)prong); p->log->i((long)(u * 16777216.0f)); p->log->nl();
	}
#endif
};
#endif

struct World;

struct Inst {
	int			idx = 0;
	Probe		probe;
	ScriptedRng	rng{nullptr};
#ifdef HFSM2_ENABLE_LOG_INTERFACE
	VLogger		logger;
#endif
	void*		mem = nullptr;
	Instance*	m = nullptr;
	bool		active = false;		// as the driver believes
	Probe*		ctx = nullptr;		// the probe the instance's callbacks see (a copy shares its original's context)
};

enum Op { OP_CONSTRUCT = 0, OP_UPDATE, OP_REACT, OP_QUERY, OP_IMMEDIATE, OP_RESET, OP_EXIT, OP_ENTER, OP_DESTROY, OP_SAVE, OP_LOAD, OP_REPLAY, OP_REPLAY_ENTER, OP_PLANEDIT, OP_EXTSTATUS, OP_COPY, OP_REACT2, OP_OVERLONG, OP_COUNT };

struct Driver {
	Log log;
	int idCounter = 1;
	long steps = 1000; uint64_t seed = 1;
	Knobs knobs;
	int wUpdate = 10, wReact = 3, wQuery = 1, wImmediate = 2, wReset = 1, wExitEnter = 1, wSaveLoad = 0, wPlanEdit = 0, wExtStatus = 0, wRecreate = 0, wOverlong = 0;
	int replica = 0;		// keep instance 2 in step with instance 0 through replayTransitions
	int useLogger = 1, verboseMethods = 0;
	int fillByte = -1;		// pre-fill of the instance storage: -1 none, 0..255 byte, 256 pseudo-random noise
	int addrOffset = 0;		// place the instance this many alignment units into a larger block
	int lastOp = -1;
	int copies = 0;			// per-mille: take a copy of the authority, run it in lock-step, then destroy the original first
	uint64_t s = 99;
	uint64_t next() { s = mix(s); return s; }

	std::vector<Inst*> insts;

	uint64_t toggle = 4242;		// useLogger=2: attach / detach the logger between operations (own stream: the workload itself must not change)
	void opBegin(Inst& in, int op, long a = 0, long b = 0) {
#ifdef HFSM2_ENABLE_LOG_INTERFACE
		if (useLogger == 2 && in.m && op != OP_CONSTRUCT && op != OP_COPY && op != OP_DESTROY) { toggle = mix(toggle); in.m->attachLogger((toggle & 1) ? &in.logger : nullptr); }
#endif
		in.probe.draws = 0; in.probe.guardCalls = 0; in.probe.lastPendSig = -2;
		if (in.ctx) { in.ctx->draws = 0; in.ctx->guardCalls = 0; in.ctx->lastPendSig = -2; }
		log.tag('O'); log.i(in.idx); log.i((long)in.probe.step); log.i(op); log.i(a); log.i(b); log.nl();
		if (!log.on) VH_LIB_ENTER(in.probe.step);
	}
	void snapshot(Inst& in) {
		Probe& p = in.probe; const Shape& sh = *p.sh;
		Instance& m = *in.m;
		std::string act, res, sub, pe, px, pc;
		const bool live = in.active;
		for (int st = 0; st < sh.nStates; ++st) {
			act.push_back(m.isActive((hfsm2::StateID)st) ? '1' : '0');
			res.push_back(m.isResumable((hfsm2::StateID)st) ? '1' : '0');
			if (m.isScheduled((hfsm2::StateID)st) != m.isResumable((hfsm2::StateID)st)) { log.tag('V'); log.s("C13.scheduled-vs-resumable"); log.i(st); log.nl(); }
			if (sh.kind[st] == 1) { const int a = (int)m.activeSubState((hfsm2::StateID)st); sub.push_back(a == (int)hfsm2::INVALID_PRONG ? '-' : (char)('0' + a)); } else sub.push_back('.');
			pe.push_back(m.isPendingEnter((hfsm2::StateID)st) ? '1' : '0');
			px.push_back(m.isPendingExit((hfsm2::StateID)st) ? '1' : '0');
			pc.push_back(m.isPendingChange((hfsm2::StateID)st) ? '1' : '0');
		}
		log.tag('S'); log.i(live); log.s(act); log.s(res); log.s(sub); log.s(pe); log.s(px); log.s(pc); log.nl();
		// in-process well-formedness at the quiescent point
		const int bad = wfCheck(m, sh, live);
		++p.wfChecks;
		if (bad) { ++p.wfViolations; log.tag('V'); log.s("C01.wf-quiescent"); log.i(bad); log.nl(); }
#ifdef HFSM2_ENABLE_TRANSITION_HISTORY
		const auto& pt = m.previousTransitions();
		log.tag('P'); log.i((int)pt.count());
		for (unsigned i = 0; i < pt.count(); ++i) { log.i(transId(pt[i])); log.i((int)pt[i].type); log.i((int)pt[i].destination); log.i(pt[i].origin == hfsm2::INVALID_STATE_ID ? -1 : (int)pt[i].origin); }
		log.nl();
		if (live) {
			log.tag('T');
			for (int st = 0; st < sh.nStates; ++st) {
				const auto* t = m.lastTransitionTo((hfsm2::StateID)st);
				if (t) {
					long idx = -1;
					if (pt.count() && t >= &pt[0] && t < &pt[0] + pt.count()) idx = (long)(t - &pt[0]);
					log.i(st); log.i(idx); log.i(transId(*t));
				}
			}
			log.nl();
		}
#endif
	}
#ifdef HFSM2_ENABLE_PLANS
	void dumpPlans(Inst& in) {
		const int cap = (int)FSM::TASK_CAPACITY;
		for (int r = 0; r < VH_SHAPE.nRegions; ++r) {
			planDump(in.m->plan((hfsm2::RegionID)r), log, r, cap, 'J');
			planDump(static_cast<const Instance&>(*in.m).plan((hfsm2::RegionID)r), log, r, cap, 'C');
			{ const auto constHandle = in.m->plan((hfsm2::RegionID)r); planDumpConst(constHandle, log, r, cap, 'I'); }
		}
	}
#endif
	void opEnd(Inst& in) {
		VH_LIB_LEAVE();
		log.tag('D'); log.i(in.ctx ? in.ctx->draws : in.probe.draws); log.nl();
		snapshot(in);
#ifdef HFSM2_ENABLE_PLANS
		if (knobs.planDump && in.m) dumpPlans(in);
#endif
#ifdef HFSM2_ENABLE_STRUCTURE_REPORT
		if (knobs.structDump && in.m) {
			const auto& st = in.m->structure(); const auto& ah = in.m->activityHistory();
			log.tag('Y'); log.i((long)st.count());
			for (unsigned i = 0; i < st.count(); ++i) { log.i(st[i].isActive ? 1 : 0); log.i((int)ah[i]); }
			log.nl();
		}
#endif
		log.tag('E'); log.nl();
		log.flush();
	}

	Inst& make(int idx, bool passive) {
		Inst* in = new Inst; in->idx = idx;
		in->probe.inst = idx; in->probe.seed = seed; in->probe.s = mix(seed * 77 + (uint64_t)idx); in->probe.k = knobs; in->probe.log = &log; in->probe.sh = &VH_SHAPE;
		in->probe.idSource = &idCounter; in->probe.passive = passive;
		in->rng.p = &in->probe;
#ifdef HFSM2_ENABLE_LOG_INTERFACE
		in->logger.p = &in->probe; in->logger.verboseMethods = verboseMethods != 0;
#endif
		if ((int)insts.size() <= idx) insts.resize((size_t)idx + 1, nullptr);
		insts[(size_t)idx] = in;
		return *in;
	}
	void construct(Inst& in, long step) {
		in.probe.step = (uint64_t)step;
		const size_t slack = (size_t)addrOffset * alignof(Instance);
		in.mem = vhAlloc(sizeof(Instance) + slack);
		if (fillByte >= 0 && fillByte < 256) memset(in.mem, fillByte, sizeof(Instance) + slack);
		else if (fillByte >= 256) { uint64_t z = 0x1234u + (uint64_t)fillByte; unsigned char* b = (unsigned char*)in.mem; for (size_t i = 0; i < sizeof(Instance) + slack; ++i) { z = mix(z); b[i] = (unsigned char)z; } }
		opBegin(in, OP_CONSTRUCT, VH_MANUAL);
		in.probe.noCancel = true; in.probe.activating = true;
		in.m = new ((char*)in.mem + slack) Instance(in.probe
#if defined(HFSM2_ENABLE_UTILITY_THEORY) && !defined(VH_BUILTIN_RNG)
			, in.rng
#endif
#ifdef HFSM2_ENABLE_LOG_INTERFACE
			, useLogger ? &in.logger : nullptr
#endif
			);
		in.probe.noCancel = false; in.probe.activating = false;
		in.active = !VH_MANUAL;
		for (int st = 0; st < VH_SHAPE.nStates; ++st) in.probe.expectThis[st] = nullptr;
		vhFillThis(*in.m, in.probe);
#ifdef HFSM2_ENABLE_STRUCTURE_REPORT
		if (knobs.structDump) { const auto& st = in.m->structure(); log.tag('N'); for (unsigned i = 0; i < st.count(); ++i) log.s(st[i].name && st[i].name[0] ? st[i].name : "?"); log.nl(); }
#endif
		for (int st = 0; st < VH_SHAPE.nStates; ++st)
			if (in.probe.firstThis[st] && in.probe.expectThis[st] && in.probe.firstThis[st] != in.probe.expectThis[st]) { log.tag('V'); log.s("C03.this-ctor"); log.i(st); log.nl(); }
		opEnd(in);
	}
	void destroy(Inst& in, long step) {
		in.probe.step = (uint64_t)step;
#if VH_MANUAL
		if (in.active) { opBegin(in, OP_EXIT); in.m->exit(); in.active = false; opEnd(in); }
#endif
		opBegin(in, OP_DESTROY, in.active);
		in.m->~Instance();
		VH_LIB_LEAVE();
		log.tag('D'); log.i(0); log.nl(); log.tag('E'); log.nl();
		memset(in.mem, 0xDD, sizeof(Instance)); free(in.mem); in.mem = nullptr; in.m = nullptr; in.active = false;
		for (int st = 0; st < VH_SHAPE.nStates; ++st) { in.probe.expectThis[st] = nullptr; in.probe.firstThis[st] = nullptr; }
	}

	void externalBatch(Inst& in) {
		Probe& p = in.probe;
		const int n = knobs.maxBatch > 0 ? (int)(next() % (uint64_t)(knobs.maxBatch + 1)) : 0;
		for (int i = 0; i < n; ++i) {
			int kk, dest;
			if (!pickReq(p, VH_KINDMASK, kk, dest)) continue;
			const int id = p.newId();
			const bool np = p.chance(p.k.pNoPayload);
			log.tag('q'); log.i(kk); log.i(dest); log.i(id); log.i(-1); log.i(np); log.nl();
			issueReq(*in.m, kk, dest, id, np);
		}
	}

	void syncReplica(Inst& a, Inst& r);
	void copyExperiment(Inst& a, long k);
	void stepAuthority(Inst& in, long k);
	int run();
};

} // namespace vh

#include "vh_ops.hpp"

int main(int argc, char** argv) {
	vh::Driver d;
	const char* logPath = nullptr;
	long watchdog = 600; int threads = 1;
	for (int i = 1; i < argc; ++i) {
		const char* eq = strchr(argv[i], '=');
		if (!eq) { fprintf(stderr, "bad arg %s\n", argv[i]); return 2; }
		std::string key(argv[i], (size_t)(eq - argv[i])); const long v = atol(eq + 1);
#define KN(name) else if (key == #name) d.knobs.name = (int)v
#define DR(name) else if (key == #name) d.name = (int)v
		if (key == "steps") d.steps = v;
		else if (key == "seed") d.seed = (uint64_t)v;
		else if (key == "log") logPath = eq + 1;
		else if (key == "watchdog") watchdog = v;
		else if (key == "threads") threads = (int)v;
		KN(pIssue); KN(pGuardCancel); KN(pGuardIssue); KN(pConsume); KN(pSucceed); KN(pFail); KN(pHeadStatus); KN(pPropagate); KN(pPlanInCb);
		KN(kinds); KN(pNoPayload); KN(structDump); KN(logAnswers); KN(planDump); KN(maxBatch); KN(wfEvery); KN(palette); KN(zeroUtil); KN(fineUtil); KN(pInjCancel); KN(pendq);
		DR(wUpdate); DR(wReact); DR(wQuery); DR(wImmediate); DR(wReset); DR(wExitEnter); DR(wSaveLoad); DR(wPlanEdit); DR(wExtStatus); DR(wRecreate); DR(wOverlong);
		DR(replica); DR(useLogger); DR(verboseMethods); DR(fillByte); DR(addrOffset); DR(copies);
		else { fprintf(stderr, "unknown key %s\n", key.c_str()); return 2; }
	}
	signal(SIGALRM, vhAlarm);
	alarm((unsigned)watchdog);
	d.log.f = (logPath && strcmp(logPath, "-") != 0) ? fopen(logPath, "w") : stdout;
	d.log.on = logPath != nullptr;
#ifdef HFSM2_VERIF
	g_log = &d.log;
#endif
	if (threads > 1) {
		// several independent drivers on separate threads: instances must not share hidden mutable state
		std::vector<vh::Driver*> ds; std::vector<std::thread> ts;
		for (int t = 0; t < threads; ++t) {
			vh::Driver* dt = new vh::Driver(d); dt->seed = d.seed + (uint64_t)t;
			std::string path = std::string(logPath ? logPath : "/dev/null") + "." + std::to_string(t);
			dt->log.f = fopen(path.c_str(), "w"); dt->log.on = logPath != nullptr; ds.push_back(dt);
		}
		for (int t = 0; t < threads; ++t) ts.emplace_back([&ds, t]() {
#ifdef HFSM2_VERIF
			g_log = &ds[(size_t)t]->log;
#endif
			ds[(size_t)t]->run(); ds[(size_t)t]->log.flush(); });
		for (auto& t : ts) t.join();
		for (auto* dt : ds) { if (dt->log.f) fclose(dt->log.f); }
		return 0;
	}
	const int rc = d.run();
	d.log.flush();
	if (d.log.f && d.log.f != stdout) fclose(d.log.f);
	return rc;
}
