// Injected handler (FSM::StateT<VInj<ID>>): records a 'j' line per callback. Included after FSM is defined.
#pragma once
namespace vh {
template <int ID>
struct VInj : FSM::State {
	using typename FSM::State::Control; using typename FSM::State::PlanControl; using typename FSM::State::FullControl;
	using typename FSM::State::GuardControl; using typename FSM::State::EventControl; using typename FSM::State::ConstControl;
	static void jrec(Probe& p, int meth) { ++p.callbacks; if (!p.quiet) { p.log->tag('j'); p.log->i(meth); p.log->i(ID); p.log->nl(); } }
	// an injected guard may veto as well (knob pInjCancel); the state's own guard, which always runs afterwards, reports the veto in its 'g' line
	static void jguard(GuardControl& c, int meth) {
		Probe& p = c.context(); jrec(p, meth);
		if (p.quiet || p.noCancel || p.passive) return;
		if (p.chance(p.k.pInjCancel)) { p.injCancel = true; c.cancelPendingTransitions(); }
	}
	void entryGuard(GuardControl& c) { jguard(c, 4); }
	void enter(PlanControl& c) { jrec(c.context(), 5); }
	void reenter(PlanControl& c) { jrec(c.context(), 6); }
	void preUpdate(FullControl& c) { jrec(c.context(), 7); }
	void update(FullControl& c) { jrec(c.context(), 8); }
	void postUpdate(FullControl& c) { jrec(c.context(), 9); }
	template <typename E> void preReact(const E&, EventControl& c) { jrec(c.context(), 10); }
	template <typename E> void react(const E&, EventControl& c) { jrec(c.context(), 11); }
	template <typename E> void postReact(const E&, EventControl& c) { jrec(c.context(), 13); }
	template <typename Q> void query(Q&, ConstControl& c) const { jrec(const_cast<Probe&>(c.context()), 12); }
	void exitGuard(GuardControl& c) { jguard(c, 14); }
	void exit(PlanControl& c) { jrec(c.context(), 15); }
};
// second injected layer (FSM::StateT<VInj<ID>, VInj2<ID>>): 'i' lines; never vetoes
template <int ID>
struct VInj2 : FSM::State {
	using typename FSM::State::Control; using typename FSM::State::PlanControl; using typename FSM::State::FullControl;
	using typename FSM::State::GuardControl; using typename FSM::State::EventControl; using typename FSM::State::ConstControl;
	static void irec(Probe& p, int meth) { ++p.callbacks; if (!p.quiet) { p.log->tag('i'); p.log->i(meth); p.log->i(ID); p.log->nl(); } }
	void entryGuard(GuardControl& c) { irec(c.context(), 4); }
	void enter(PlanControl& c) { irec(c.context(), 5); }
	void reenter(PlanControl& c) { irec(c.context(), 6); }
	void preUpdate(FullControl& c) { irec(c.context(), 7); }
	void update(FullControl& c) { irec(c.context(), 8); }
	void postUpdate(FullControl& c) { irec(c.context(), 9); }
	template <typename E> void preReact(const E&, EventControl& c) { irec(c.context(), 10); }
	template <typename E> void react(const E&, EventControl& c) { irec(c.context(), 11); }
	template <typename E> void postReact(const E&, EventControl& c) { irec(c.context(), 13); }
	template <typename Q> void query(Q&, ConstControl& c) const { irec(const_cast<Probe&>(c.context()), 12); }
	void exitGuard(GuardControl& c) { irec(c.context(), 14); }
	void exit(PlanControl& c) { irec(c.context(), 15); }
};
}
