// Driver operations (included by vh_main.hpp)
#pragma once
#include <type_traits>
#include <utility>

namespace vh {

template <typename TM>
static inline void immediateReq(TM& m, int kk, int dest, int id) {
	const hfsm2::StateID d = (hfsm2::StateID)dest;
#ifndef VH_NO_PAYLOAD
	const Payload pl = PIO::make(id);
	switch (kk) {
		case 0: m.immediateChangeWith(d, pl); break;
		case 1: m.immediateRestartWith(d, pl); break;
		case 2: m.immediateResumeWith(d, pl); break;
		case 3: m.immediateSelectWith(d, pl); break;
#ifdef HFSM2_ENABLE_UTILITY_THEORY
		case 4: m.immediateUtilizeWith(d, pl); break;
		default: m.immediateRandomizeWith(d, pl); break;
#else
		default: m.immediateChangeWith(d, pl); break;
#endif
	}
#else
	(void)id;
	switch (kk) {
		case 0: m.immediateChangeTo(d); break;
		case 1: m.immediateRestart(d); break;
		case 2: m.immediateResume(d); break;
		case 3: m.immediateSelect(d); break;
#ifdef HFSM2_ENABLE_UTILITY_THEORY
		case 4: m.immediateUtilize(d); break;
		default: m.immediateRandomize(d); break;
#else
		default: m.immediateChangeTo(d); break;
#endif
	}
#endif
}

static inline std::string cfgKey(Instance& m, const Shape& sh) {
	std::string k;
	for (int st = 0; st < sh.nStates; ++st) { k.push_back(m.isActive((hfsm2::StateID)st) ? '1' : '0'); }
	k.push_back('|');
	for (int st = 0; st < sh.nStates; ++st) { k.push_back(m.isResumable((hfsm2::StateID)st) ? '1' : '0'); }
	return k;
}

#if VH_MANUAL
static inline void doEnter(Inst& in) { Probe& cp = in.ctx ? *in.ctx : in.probe; cp.activating = true; const bool nc = cp.noCancel; cp.noCancel = true; in.m->enter(); cp.activating = false; cp.noCancel = nc; in.active = true; }
static inline void doExit (Inst& in) { in.m->exit();  in.active = false; }
#endif

#if defined(HFSM2_ENABLE_SERIALIZATION) && !defined(VH_NO_SERIAL)
#define VH_SERIAL 1
#if defined(__SANITIZE_ADDRESS__)
#define VH_ASAN 1
#elif defined(__has_feature)
#if __has_feature(address_sanitizer)
#define VH_ASAN 1
#endif
#endif
// serial buffer in an exact-size heap block (red zones abut under ASan) / between canaries (plain builds)
struct GuardedBuffer {
	typedef typename Instance::SerialBuffer SB;
	unsigned char* raw; SB* b;
	GuardedBuffer() {
#ifdef VH_ASAN
		raw = (unsigned char*)malloc(sizeof(SB)); b = new (raw) SB;
#else
		raw = (unsigned char*)malloc(sizeof(SB) + 64); memset(raw, 0xCD, sizeof(SB) + 64); b = new (raw + 32) SB;
#endif
	}
	bool intact() const {
#ifndef VH_ASAN
		for (int i = 0; i < 32; ++i) if (raw[i] != 0xCD || raw[32 + sizeof(SB) + i] != 0xCD) return false;
#endif
		return true;
	}
	~GuardedBuffer() { b->~SB(); free(raw); }
};
static inline void saveLoad(Driver& d, Inst& from, Inst& to, long step) {
	GuardedBuffer g1, g2;
	// callers reuse buffers: what a buffer held before save() must not matter (same leftovers in both, so a save that
	// only defines its own SERIAL_BITS still re-saves identically)
	{
		typedef typename Instance::SerialBuffer SB;
		static thread_local unsigned char lastSnap[sizeof(SB)]; static thread_local bool haveSnap = false;
		unsigned char* p1 = (unsigned char*)g1.b->data(); unsigned char* p2 = (unsigned char*)g2.b->data();
		const unsigned n = (unsigned)sizeof(g1.b->data());
		uint64_t z = vh::mix((uint64_t)step * 0x9e3779b97f4a7c15ull + (uint64_t)from.idx * 31 + (uint64_t)to.idx);
		switch (z & 3) {
		case 0: break;
		case 1: memset(p1, 0xFF, n); memset(p2, 0xFF, n); break;
		case 2: for (unsigned i = 0; i < n; ++i) { z = vh::mix(z + i); p1[i] = p2[i] = (unsigned char)z; } break;
		default: if (haveSnap) { memcpy(p1, lastSnap, n); memcpy(p2, lastSnap, n); } else { memset(p1, 0xFF, n); memset(p2, 0xFF, n); } break;
		}
		from.probe.step = (uint64_t)step;
		d.opBegin(from, OP_SAVE, to.idx);
		from.m->save(*g1.b);
		memcpy(lastSnap, p1, n); haveSnap = true;
	}
	d.log.tag('b'); for (unsigned i = 0; i < sizeof(g1.b->data()); ++i) d.log.i(g1.b->data()[i]); d.log.nl();
	d.opEnd(from);
	if (!g1.intact()) { d.log.tag('V'); d.log.s("C08.save-wrote-outside-the-buffer"); d.log.nl(); }
	to.probe.step = (uint64_t)step;
	d.opBegin(to, OP_LOAD, from.idx);
	to.m->load(*g1.b);
#if VH_MANUAL
	to.active = to.m->isActive();
#endif
	d.opEnd(to);
	if (!g1.intact()) { d.log.tag('V'); d.log.s("C08.load-wrote-outside-the-buffer"); d.log.nl(); }
	to.probe.quiet = true;
	to.m->save(*g2.b);
	to.probe.quiet = false;
	if (*g1.b != *g2.b) { d.log.tag('V'); d.log.s("C08.resave-differs"); d.log.i(from.idx); d.log.i(to.idx); d.log.nl(); }
	if (!g2.intact()) { d.log.tag('V'); d.log.s("C08.save-wrote-outside-the-buffer"); d.log.nl(); }
}
#endif

#ifdef HFSM2_ENABLE_TRANSITION_HISTORY
// C11 "replaying over-long histories": more transitions than any history can hold, all with valid identifiers, from an exact-size
// heap block (a read past the list or a write past the history is a sanitizer report); afterwards the instance must still be well-formed
static inline void overlongReplay(Driver& d, Inst& in, long step) {
	typedef typename std::remove_cv<typename std::remove_reference<decltype(std::declval<Instance&>().previousTransitions()[0])>::type>::type Tr;
	if (!in.m->isActive((hfsm2::StateID)0)) return;
	Probe& p = in.probe; p.step = (uint64_t)step;
	int n = 8 * VH_SHAPE.nStates + 64 + (int)(d.next() % 9);
	const int countMax = (int)(hfsm2::Short)~(hfsm2::Short)0;			// the count parameter is a Short
	if (n > countMax) n = countMax;
	// the list starts with a plain change to an inactive state, so that it is a history that changes something (replaying one that
	// changes nothing is a usage error the library answers with a debug break and 'false')
	int first = -1;
	for (int t = 0; t < 16 && first < 0; ++t) { const int sId = 1 + (int)(d.next() % (uint64_t)(VH_SHAPE.nStates - 1)); if (!in.m->isActive((hfsm2::StateID)sId) && (VH_KINDMASK[sId] & 1)) first = sId; }
	if (first < 0) return;
	Tr* list = (Tr*)malloc(sizeof(Tr) * (size_t)n);
	int made = 0;
	new (&list[made++]) Tr{(hfsm2::StateID)first, hfsm2::TransitionType::CHANGE};
	for (int i = 1; i < n; ++i) {
		int kk = 0, dest = 0;
		if (!pickReq(p, VH_KINDMASK, kk, dest)) { kk = 0; dest = first; }
		new (&list[made++]) Tr{(hfsm2::StateID)dest, (hfsm2::TransitionType)kk};
	}
	d.opBegin(in, OP_OVERLONG, made);
	const bool ok = in.m->replayTransitions(list, (hfsm2::Short)made);
	d.log.tag('v'); d.log.i(ok); d.log.nl();
	d.opEnd(in);
	for (int i = 0; i < made; ++i) list[i].~Tr();
	free(list);
}
#endif

inline void Driver::syncReplica(Inst& a, Inst& r) {
	// bring the replica in line with what the authority just did, through the replay interface only
#ifdef HFSM2_ENABLE_TRANSITION_HISTORY
	r.probe.step = a.probe.step;
	const auto& prev = a.m->previousTransitions();
	switch (lastOp) {
	case OP_UPDATE: case OP_REACT: case OP_REACT2: case OP_IMMEDIATE:
		if (prev.count()) {
			opBegin(r, OP_REPLAY, (long)prev.count());
			log.tag('y'); for (unsigned i = 0; i < prev.count(); ++i) { log.i(transId(prev[i])); log.i((int)prev[i].type); log.i((int)prev[i].destination); log.i(prev[i].origin == hfsm2::INVALID_STATE_ID ? -1 : (int)prev[i].origin); } log.nl();
			const bool ok = r.m->replayTransitions(prev);
			log.tag('v'); log.i(ok); log.nl();
			opEnd(r);
		}
		break;
	case OP_RESET:
		opBegin(r, OP_RESET); r.m->reset(); opEnd(r); break;
	case OP_EXIT:
#if VH_MANUAL
		opBegin(r, OP_EXIT); doExit(r); opEnd(r);
		if (prev.count()) {
			opBegin(r, OP_REPLAY_ENTER, (long)prev.count());
			log.tag('y'); for (unsigned i = 0; i < prev.count(); ++i) { log.i(transId(prev[i])); log.i((int)prev[i].type); log.i((int)prev[i].destination); log.i(prev[i].origin == hfsm2::INVALID_STATE_ID ? -1 : (int)prev[i].origin); } log.nl();
			r.probe.activating = true;
			const bool ok = r.m->replayEnter(prev);
			r.probe.activating = false; r.active = r.m->isActive();
			log.tag('v'); log.i(ok); log.nl();
			opEnd(r);
		} else { opBegin(r, OP_ENTER); r.probe.noCancel = true; doEnter(r); r.probe.noCancel = false; opEnd(r); }
#endif
		break;
	default: return;
	}
	// a diverged replica is re-synchronised by save/load so that later steps start "identically prepared"
	if (cfgKey(*a.m, VH_SHAPE) != cfgKey(*r.m, VH_SHAPE)) {
		log.tag('R'); log.i((long)a.probe.step); log.nl();
#ifdef VH_SERIAL
		saveLoad(*this, a, r, (long)a.probe.step);
#endif
	}
#else
	(void)a; (void)r;
#endif
}

inline void Driver::copyExperiment(Inst& a, long k) {
	// copy-construct, run original and copy in lock-step, destroy the original first, keep using the copy
	Inst& c = make(3, false);
	c.ctx = &a.probe;
	c.probe.step = (uint64_t)k;
	c.mem = vhAlloc(sizeof(Instance));
	{ unsigned char* b = (unsigned char*)c.mem; uint64_t z = 77; for (size_t i = 0; i < sizeof(Instance); ++i) { z = mix(z); b[i] = (unsigned char)z; } }
	opBegin(c, OP_COPY);
	c.m = new (c.mem) Instance(*a.m);
	c.active = a.active;
	opEnd(c);
	const void* keepThis[1024];
	const int lock = 6 + (int)(next() % 10);
	for (int i = 0; i < lock; ++i) {
		const uint64_t savedDriver = s; const int savedId = idCounter; const uint64_t savedProbe = a.probe.s;
		c.probe.s = a.probe.s;
		stepAuthority(a, k);
		const uint64_t afterDriver = s; const int afterId = idCounter;
		s = savedDriver; idCounter = savedId; a.probe.s = savedProbe;
		memcpy(keepThis, a.probe.expectThis, sizeof keepThis);
		vhFillThis(*c.m, a.probe);
		stepAuthority(c, k);
		memcpy(a.probe.expectThis, keepThis, sizeof keepThis);
		if (s != afterDriver || idCounter != afterId) { log.tag('V'); log.s("C10.copy|driver-consumed-different-randomness"); log.nl(); }
		a.probe.s = c.probe.s;
	}
	// the original goes first; its storage is poisoned and released
	destroy(a, k);
	vhFillThis(*c.m, a.probe);
	for (int i = 0; i < 8; ++i) stepAuthority(c, k);
	// destroy the copy, start over with a fresh authority
	{
#if VH_MANUAL
		if (c.active) { opBegin(c, OP_EXIT); c.m->exit(); c.active = false; opEnd(c); }
#endif
		opBegin(c, OP_DESTROY, c.active); c.m->~Instance(); VH_LIB_LEAVE(); log.tag('D'); log.i(0); log.nl(); log.tag('E'); log.nl();
		memset(c.mem, 0xDD, sizeof(Instance)); free(c.mem); c.mem = nullptr; c.m = nullptr;
	}
	for (int st = 0; st < VH_SHAPE.nStates; ++st) { a.probe.expectThis[st] = nullptr; a.probe.firstThis[st] = nullptr; }
	construct(a, k);
#if VH_MANUAL
	opBegin(a, OP_ENTER); a.probe.noCancel = true; doEnter(a); a.probe.noCancel = false; opEnd(a);
#endif
}

inline void Driver::stepAuthority(Inst& in, long k) {
	Probe& p = in.probe;
	p.step = (uint64_t)k;
	Instance& m = *in.m;
	int wImm = wImmediate, wEE = VH_MANUAL ? wExitEnter : 0;
	int wPE = 0, wES = 0;
#ifdef HFSM2_ENABLE_PLANS
	wPE = wPlanEdit; wES = wExtStatus;
#endif
	const int total = wUpdate + wReact + wQuery + wImm + wReset + wEE + wPE + wES;
	int r = (int)(next() % (uint64_t)(total > 0 ? total : 1));
	int op;
	if ((r -= wUpdate) < 0) op = OP_UPDATE;
	else if ((r -= wReact) < 0) op = (next() & 1) ? OP_REACT : OP_REACT2;
	else if ((r -= wQuery) < 0) op = OP_QUERY;
	else if ((r -= wImm) < 0) op = OP_IMMEDIATE;
	else if ((r -= wReset) < 0) op = OP_RESET;
	else if ((r -= wPE) < 0) op = OP_PLANEDIT;
	else if ((r -= wES) < 0) op = OP_EXTSTATUS;
	else op = OP_EXIT;
	lastOp = op;

	switch (op) {
	case OP_UPDATE:
		opBegin(in, op); externalBatch(in); m.update(); opEnd(in); break;
	case OP_REACT:
		opBegin(in, op); externalBatch(in); m.react(Evt{(int)k}); opEnd(in); break;
	case OP_REACT2:
		opBegin(in, op); externalBatch(in); m.react(Evt2{(int)k}); opEnd(in); break;
	case OP_QUERY: {
		const std::string before = cfgKey(m, *p.sh);
		opBegin(in, op);
		Qry q{0}; static_cast<const Instance&>(m).query(q);
		VH_LIB_LEAVE();
		if (cfgKey(m, *p.sh) != before) { log.tag('V'); log.s("C05.query-changed-state"); log.nl(); }
		log.tag('v'); log.i(q.visited); log.nl();
		opEnd(in); break; }
	case OP_IMMEDIATE: {
		int kk, dest;
		if (!pickReq(p, VH_KINDMASK, kk, dest) || kk == 6) { lastOp = OP_UPDATE; opBegin(in, OP_UPDATE); m.update(); opEnd(in); break; }
		const int id = p.newId();
		opBegin(in, op, kk, dest);
		log.tag('q'); log.i(kk); log.i(dest); log.i(id); log.i(-1); log.nl();
		immediateReq(m, kk, dest, id);
		opEnd(in); break; }
	case OP_RESET:
		opBegin(in, op); m.reset(); opEnd(in); break;
#ifdef HFSM2_ENABLE_PLANS
	case OP_PLANEDIT: {
		opBegin(in, op);
		const int nEdits = 1 + (int)(next() % 3);
		for (int e = 0; e < nEdits; ++e) {
			const int reg = (int)(next() % (uint64_t)VH_SHAPE.nRegions);
			const int what = (int)(next() % 10);
			if (what < 7) vhPlanAppend(m.plan((hfsm2::RegionID)reg), p, reg, -1);
			else if (what < 8) planRemove(m.plan((hfsm2::RegionID)reg), p, reg, (int)(next() % 4), -1);
			else if (what < 9) {
				// remove the last task through a live iterator, append to this and to another region's plan, then go on iterating:
				// whatever the iterator yields afterwards (and removes) must be a task of its own region
				auto plan = m.plan((hfsm2::RegionID)reg);
				int n = 0; for (auto it = plan.begin(); it && n < 100000; ++it) ++n;
				if (n) {
					auto it = plan.begin(); for (int i = 0; i + 1 < n && it; ++i) ++it;
					if (it) {
						log.tag('X'); log.i(reg); log.i(n - 1); log.i(transId(*it)); log.i(-1); log.nl();
						it.remove();
						const int other = (int)(next() % (uint64_t)VH_SHAPE.nRegions);
						vhPlanAppend(m.plan((hfsm2::RegionID)other), p, other, -1);		// takes the slot just freed
						vhPlanAppend(m.plan((hfsm2::RegionID)other), p, other, -1);		// linked behind it
						if (next() & 1) vhPlanAppend(m.plan((hfsm2::RegionID)reg), p, reg, -1);
						++it;
						for (int guard = 0; it && guard < 4; ++guard) {
							log.tag('X'); log.i(reg); log.i(-1); log.i(transId(*it)); log.i(-1); log.nl();
							it.remove(); ++it;
						}
					}
				}
			}
			else { log.tag('K'); log.i(reg); log.nl(); m.plan((hfsm2::RegionID)reg).clear(); }
		}
		opEnd(in); break; }
	case OP_EXTSTATUS: {
		opBegin(in, op);
		int st = 1 + (int)(next() % (uint64_t)(VH_SHAPE.nStates > 1 ? VH_SHAPE.nStates - 1 : 1));
		for (int t = 0; t < 8 && !m.isActive((hfsm2::StateID)st); ++t) st = 1 + (int)(next() % (uint64_t)(VH_SHAPE.nStates - 1));
		if (st < VH_SHAPE.nStates && m.isActive((hfsm2::StateID)st)) {
			const int fail = (next() % 5 == 0);
			log.tag('s'); log.i(fail); log.i(st); log.i(-1); log.nl();
			if (fail) m.fail((hfsm2::StateID)st); else m.succeed((hfsm2::StateID)st);
		}
		opEnd(in); break; }
#endif
	case OP_EXIT:
#if VH_MANUAL
		opBegin(in, OP_EXIT); doExit(in); opEnd(in);
		opBegin(in, OP_ENTER); p.noCancel = true; doEnter(in); p.noCancel = false; opEnd(in);
#endif
		break;
	default: break;
	}
}

inline int Driver::run() {
	s = mix(seed * 31 + 7);
	log.tag('H'); log.s(VH_SHAPE_NAME); log.i(VH_SHAPE.nStates); log.i(VH_SHAPE.nRegions); log.i((long)seed); log.i(VH_MANUAL); log.i(VH_SUBST_LIMIT); log.i((long)sizeof(Instance));
#ifdef VH_SERIAL
	log.i((long)Instance::SerialBuffer::BIT_CAPACITY); log.i((long)sizeof(typename Instance::SerialBuffer));
#else
	log.i(-1); log.i(-1);
#endif
	log.nl();
	Inst& a = make(0, false);
	construct(a, 0);
#if VH_MANUAL
	a.probe.step = 0;
	opBegin(a, OP_ENTER); a.probe.noCancel = true; doEnter(a); a.probe.noCancel = false; opEnd(a);
#endif
	Inst* rep = nullptr;
#if defined(VH_SERIAL) && defined(HFSM2_ENABLE_TRANSITION_HISTORY)
	if (replica) {
		rep = &make(2, true);
		construct(*rep, 0);
#if VH_MANUAL
		opBegin(*rep, OP_ENTER); rep->probe.noCancel = true; doEnter(*rep); rep->probe.noCancel = false; opEnd(*rep);
#endif
		if (cfgKey(*a.m, VH_SHAPE) != cfgKey(*rep->m, VH_SHAPE)) { log.tag('R'); log.i(0); log.nl(); saveLoad(*this, a, *rep, 0); }
	}
#endif
	Inst* wb = nullptr;
#ifdef VH_SERIAL
	if (wSaveLoad) {
		wb = &make(1, false);
		construct(*wb, 0);
#if VH_MANUAL
		opBegin(*wb, OP_ENTER); wb->probe.noCancel = true; doEnter(*wb); wb->probe.noCancel = false; opEnd(*wb);
#endif
	}
#endif
	for (long k = 1; k <= steps; ++k) {
#if VH_MANUAL
		if (!a.active) { a.probe.step = (uint64_t)k; opBegin(a, OP_ENTER); a.probe.noCancel = true; doEnter(a); a.probe.noCancel = false; opEnd(a); }
#endif
		stepAuthority(a, k);
		if (rep) syncReplica(a, *rep);
		if (copies && !rep && (int)(next() % 1000) < copies) copyExperiment(a, k);
#ifdef VH_SERIAL
		if (wb && (int)(next() % 100) < wSaveLoad) {
			const int saved = lastOp;
			Inst& b = *wb;
			const int nb = 1 + (int)(next() % 3);
			for (int i = 0; i < nb; ++i) {
#if VH_MANUAL
				if (!b.active) { b.probe.step = (uint64_t)k; opBegin(b, OP_ENTER); b.probe.noCancel = true; doEnter(b); b.probe.noCancel = false; opEnd(b); }
#endif
				stepAuthority(b, k);
			}
#if VH_MANUAL
			if (next() % 5 == 0) { b.probe.step = (uint64_t)k; opBegin(b, OP_EXIT); doExit(b); opEnd(b); }			// load into / save from an inactive instance
#endif
			lastOp = saved;
			if (rep || (next() & 1)) saveLoad(*this, a, b, k); else saveLoad(*this, b, a, k);
#ifdef HFSM2_ENABLE_TRANSITION_HISTORY
			if (wOverlong && (int)(next() % 100) < wOverlong) overlongReplay(*this, (next() & 1) && !rep ? a : b, k);
#endif
		}
#endif
		if (wRecreate && !rep && (int)(next() % 1000) < wRecreate) { destroy(a, k); construct(a, k);
#if VH_MANUAL
			opBegin(a, OP_ENTER); a.probe.noCancel = true; doEnter(a); a.probe.noCancel = false; opEnd(a);
#endif
		}
	}
	uint64_t cb = 0, wfc = 0, wfv = 0, tv = 0;
	for (Inst* in : insts) if (in) { cb += in->probe.callbacks; wfc += in->probe.wfChecks; wfv += in->probe.wfViolations; tv += in->probe.thisViolations; }
	for (Inst* in : insts) if (in && in->m) destroy(*in, steps + 1);
	long ah = 0;
#ifdef HFSM2_VERIF
	ah = g_assertHits;
#endif
	long allocs = -1;
#ifdef VH_ALLOC_HOOK
	allocs = g_libAllocs;
	if (g_libAllocs) { log.tag('V'); log.s("C11.alloc|library-call-allocated-dynamic-memory"); log.i(g_libAllocs); log.i(g_firstAllocStep); log.nl(); }
#endif
	log.tag('Z'); log.i(steps); log.i((long)cb); log.i((long)wfc); log.i((long)wfv); log.i((long)tv); log.i(ah); log.i(allocs); log.nl();
	return 0;
}

} // namespace vh
