#!/bin/sh
# silence sweep: every quick check for several VERIF_SEED values; prints one line per (seed, property)
SEEDS=${1:-"0 1 2 3 7 42 1234"}
PROPS=${2:-"C01 C02 C03 C04 C05 C06 C07 C08 C09 C10 C11 C12 C13 C14 C15 C16 C17 C18 C19 C20"}
export VERIF_EVIDENCE_DIR=${VERIF_EVIDENCE_DIR:-/tmp/sweep_evidence}
mkdir -p $VERIF_EVIDENCE_DIR
for s in $SEEDS; do for p in $PROPS; do
  out=$(VERIF_SEED=$s python3 bin/check.py $p --tier quick 2>&1); rc=$?
  echo "seed=$s $p exit=$rc $(echo "$out" | grep -c '^VIOLATION') violations $(echo "$out" | grep -c '^KNOWN-FINDING') known $(echo "$out" | grep -c 'HARNESS-ERROR\|INCONCLUSIVE') harness"
  [ $rc -ne 0 ] && echo "$out" | grep -A1 "^VIOLATION\|HARNESS-ERROR\|INCONCLUSIVE" | cut -c1-400 | head -8
done; done
echo SWEEP-DONE
