#!/usr/bin/env python3
"""Unit-level properties C18..C20: stand-alone harness programs under units/, several build flavours."""
import os, sys, json, time
import vlib
from vlib import VERIF

PROPS = {
    'C18': dict(src='c18_bits.cpp', rule='evaluations = individual comparisons of bit-array / view / stream results with the set and vector<bool> models; distinct_nontrivial = distinct (capacity, background), (capacity, unit, width) view geometries and (alignment, width, value) / random stream sequences',
                exhaustive='(capacity <= 40 and 63,64,65,127,128,255) x every index dynamic; every static index for capacities 1,2,3,7,8,9,15,16,17; every (unit, width) view of every capacity; every (start alignment 0..7, width 1..32) pair x 64 values; random sequences beyond'),
    'C19': dict(src='c19_containers.cpp', rule='evaluations = pool / array state comparisons with the ideal containers after each operation; distinct_nontrivial = distinct operation sequences played',
                exhaustive='all sequences over {insert, remove-first, remove-middle, remove-last} up to length 8 (quick) / 10 (thorough) for capacities 1,2,3, void and int payload; random sequences for capacities 1..37'),
    'C20': dict(src='c20_random.cpp', rule='evaluations = generator outputs compared with the independent reference implementation; distinct_nontrivial = distinct seeds exercised',
                exhaustive='edge seeds 0, 1, 2^k+-1, -k*gamma; thorough: all 2^32 seeds of the 32-bit seeding routine'),
}
FLAV = {'quick': ['u-clang-asan', 'u-gcc'], 'thorough': ['u-clang-asan', 'u-gcc', 'u-gcc-O2', 'u-clang-O1']}

def job(j):
    prop, flavour, tier, seed = j
    src = open(os.path.join(VERIF, 'units', PROPS[prop]['src'])).read()
    binp, out = vlib.build_one(src, flavour, name=prop.lower())
    if not binp: return (flavour, None, 'build failed: ' + out[:1500], '')
    rc, so, se = vlib.run_bin(binp, [tier, str(seed)], timeout=3000)
    return (flavour, rc, so, se)

def run(prop, tier, seed):
    V = vlib.Verdict(prop, tier, seed)
    res = vlib.pmap(job, [(prop, fl, tier, seed) for fl in FLAV[tier]])
    checks = 0; distinct = 0; samples = []; extra = []
    for flavour, rc, so, se in res:
        runinfo = {'cmd': 'python3 %s/bin/check.py %s --tier %s --seed %d' % (VERIF, prop, tier, seed), 'flavour': flavour}
        if rc is None: V.harness_errors.append('%s: %s' % (flavour, so.replace('\n', ' | ')[:600])); continue
        skey = vlib.sanitizer_key(se) if se else None
        if skey: V.add(skey, 1, {'stderr': se[-1500:], 'flavour': flavour}, runinfo)
        elif rc != 0: V.add('crash|rc=%d' % rc, 1, {'stderr': se[-800:], 'flavour': flavour}, runinfo)
        z = None
        for line in so.split('\n'):
            if line.startswith('V '):
                parts = line.split(' ', 2)
                V.add(parts[1], 1, {'detail': parts[2] if len(parts) > 2 else '', 'flavour': flavour}, runinfo)
            elif line.startswith('B '):
                import check_log
                p = line.split()
                V.add('assert|' + check_log.assert_key(p[1], int(p[2])), 1, {'flavour': flavour}, runinfo)
            elif line.startswith('X '): extra.append(line[2:])
            elif line.startswith('Z '): z = [int(x) for x in line.split()[1:]]
        if z is None:
            if not skey and rc == 0: V.harness_errors.append('%s: no summary line' % flavour)
            continue
        checks += z[0]; distinct = max(distinct, z[1])
        samples.append({'flavour': flavour, 'comparisons': z[0], 'distinct-cases': z[1], 'violations-printed': z[2], 'assertion-hits': z[3]})
    cov = {'evaluations': checks, 'distinct_nontrivial': distinct, 'rule': PROPS[prop]['rule'], 'samples': samples, 'exhaustive_subdomains': PROPS[prop]['exhaustive'], 'flavours': FLAV[tier], 'notes': extra}
    return V.finish(cov, ['the harness calls hfsm2::detail containers directly (observation points named by the property)', 'objects under test live in exact-size heap blocks; AddressSanitizer/UBSan reports are violations', 'reference implementations of the generators were written from the published algorithms and anchored by published SplitMix64 vectors'])
