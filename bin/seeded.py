#!/usr/bin/env python3
"""Seeded-change experiments.
  seeded.py verify <worktree-with-MUTANT-dir> <id> <property>   confirm the change (tests pass, demo fails with / passes without), store under seeded/<id>/
  seeded.py detect <id> [properties...]                          run quick checks against a scratch worktree of /repo with the change applied
"""
import os, sys, json, subprocess, shutil, time
VERIF = os.path.dirname(os.path.dirname(os.path.abspath(__file__)))
def sh(cmd, timeout=1800, cwd=None, env=None):
    r = subprocess.run(cmd, shell=True, capture_output=True, text=True, timeout=timeout, cwd=cwd, env=env)
    return r.returncode, (r.stdout + r.stderr)
def scratch(tag):
    d = '/tmp/sv_%s' % tag
    sh('git -C /repo worktree remove --force %s; rm -rf %s; git -C /repo worktree prune' % (d, d))
    rc, out = sh('git -C /repo worktree add -q --detach %s HEAD' % d)
    if rc: raise SystemExit('worktree failed: ' + out)
    return d
def drop(d):
    sh('git -C /repo worktree remove --force %s; rm -rf %s; git -C /repo worktree prune' % (d, d))

def verify(wt, mid, prop):
    dst = os.path.join(VERIF, 'seeded', mid); os.makedirs(dst, exist_ok=True)
    for f in ('patch.diff', 'demo.cpp', 'notes.md'):
        p = os.path.join(wt, 'MUTANT', f)
        if os.path.exists(p): shutil.copy(p, os.path.join(dst, f))
    d = scratch(mid)
    meta = {'id': mid, 'property': prop, 'repo_head': sh('git -C /repo rev-parse --short HEAD')[1].strip(), 'ran': []}
    try:
        rc, out = sh('git -C %s apply %s' % (d, os.path.join(dst, 'patch.diff')))
        meta['patch_applies'] = rc == 0
        if rc: meta['error'] = out[-500:]; return meta
        # demonstration: with and without
        rc1, o1 = sh('g++ -std=c++11 -I %s/include %s/demo.cpp -o /tmp/sv_demo_%s && /tmp/sv_demo_%s' % (d, dst, mid, mid), timeout=600)
        rc0, o0 = sh('g++ -std=c++11 -I /repo/include %s/demo.cpp -o /tmp/sv_demo0_%s && /tmp/sv_demo0_%s' % (dst, mid, mid), timeout=600)
        meta['demo_with_change'] = {'exit': rc1, 'output': o1[-400:]}; meta['demo_without_change'] = {'exit': rc0, 'output': o0[-400:]}
        meta['ran'].append('g++ -std=c++11 -I <tree>/include demo.cpp && ./demo   (patched tree and /repo)')
        # the repository's own tests on the patched tree
        t = time.time()
        rc, out = sh('%s/bin/baseline_off.sh %s /tmp/sv_build_%s' % (VERIF, d, mid), timeout=3000)
        meta['tests_with_change'] = {'exit': rc, 'tail': out[-300:], 'seconds': round(time.time() - t)}
        meta['ran'].append('bin/baseline_off.sh <patched tree>')
        meta['confirmed'] = bool(rc == 0 and rc1 != 0 and rc0 == 0)
    finally:
        sh('rm -rf /tmp/sv_build_%s /tmp/sv_demo_%s /tmp/sv_demo0_%s' % (mid, mid, mid)); drop(d)
        notes = os.path.join(dst, 'notes.md')
        meta['needs'] = open(notes).read()[:1500] if os.path.exists(notes) else ''
        try:
            old = json.load(open(os.path.join(dst, 'meta.json')))
            for k in ('detection', 'summary', 'needs_short'):
                if k in old: meta[k] = old[k]
        except Exception: pass
        json.dump(meta, open(os.path.join(dst, 'meta.json'), 'w'), indent=1)
    return meta

def detect(mid, props):
    dst = os.path.join(VERIF, 'seeded', mid)
    meta = json.load(open(os.path.join(dst, 'meta.json')))
    props = props or [meta['property']]
    d = scratch('det_' + mid)
    res = {}
    try:
        rc, out = sh('git -C %s apply %s' % (d, os.path.join(dst, 'patch.diff')))
        if rc: raise SystemExit('patch does not apply: ' + out)
        ev = '/tmp/sv_evid_%s' % mid; os.makedirs(ev, exist_ok=True)
        for p in props:
            env = dict(os.environ, VERIF_REPO=d, VERIF_EVIDENCE_DIR=ev)
            t = time.time()
            rc, out = sh('python3 %s/bin/check.py %s --tier quick' % (VERIF, p), timeout=3000, cwd=VERIF, env=env)
            keys = [l.strip()[5:].split('  (')[0] for l in out.split('\n') if l.strip().startswith('key: ')]
            res[p] = {'exit': rc, 'violation_keys': keys[:12], 'seconds': round(time.time() - t)}
            print(mid, p, 'exit', rc, keys[:4], flush=True)
        shutil.rmtree(ev, ignore_errors=True)
    finally:
        drop(d)
    meta.setdefault('detection', {}).update(res)
    json.dump(meta, open(os.path.join(dst, 'meta.json'), 'w'), indent=1)
    return res

if __name__ == '__main__':
    if sys.argv[1] == 'verify': print(json.dumps(verify(sys.argv[2], sys.argv[3], sys.argv[4]), indent=1)[:1500])
    elif sys.argv[1] == 'detect': detect(sys.argv[2], sys.argv[3:])
