#!/bin/sh
# Builds and runs the repository's own test suite with the verification guard OFF
# (no -DHFSM2_VERIF anywhere). Usage: baseline_off.sh [repo-dir] [build-dir]
REPO=${1:-${VERIF_REPO:-/repo}}
BUILD=${2:-$(mktemp -d /tmp/hfsm2_baseline.XXXXXX)}
set -e
cmake -G Ninja -S "$REPO" -B "$BUILD" -DHFSM2_BUILD_TESTS=ON -DCMAKE_BUILD_TYPE=RelWithDebInfo -DCMAKE_CXX_FLAGS=-Wno-error >/dev/null
cmake --build "$BUILD" -j16 2>&1 | tail -n 15
set +e
"$BUILD/hfsm2_test" 2>&1 | tail -n 6
rc=$?
ctest --test-dir "$BUILD" -j8 --timeout 900 2>&1 | tail -n 4
rc2=$?
[ -z "$2" ] && rm -rf "$BUILD"
[ $rc -eq 0 ] && [ $rc2 -eq 0 ]
