#!/usr/bin/env python3
"""Shared machinery of the checks: build cache, parallel build/run, known findings, evidence, verdicts."""
import os, sys, json, hashlib, subprocess, time, shutil, tempfile, concurrent.futures as cf

VERIF = os.path.dirname(os.path.dirname(os.path.abspath(__file__)))
sys.path.insert(0, os.path.join(VERIF, 'gen')); sys.path.insert(0, os.path.join(VERIF, 'monitors'))
REPO = os.environ.get('VERIF_REPO', '/repo')
BUILD = os.path.join(VERIF, 'build')
EVID = os.environ.get('VERIF_EVIDENCE_DIR', os.path.join(VERIF, 'evidence'))   # seeded-change experiments write elsewhere
JOBS = int(os.environ.get('VERIF_JOBS', '16'))
GUARD = 'HFSM2_VERIF'

SAN = '-fsanitize=address,undefined -fno-sanitize-recover=all -fno-omit-frame-pointer -g'
FLAVOURS = {
    # name: (compiler, flags, header flavour)
    'gcc':        ('g++',     '-std=c++11 -O1', 'single'),
    'clang':      ('clang++', '-std=c++11 -O0', 'single'),
    'gcc17':      ('g++',     '-std=c++17 -O1', 'single'),
    'clang17':    ('clang++', '-std=c++17 -O1', 'single'),
    'clang-dev':  ('clang++', '-std=c++11 -O0', 'dev'),
    'gcc-dev':    ('g++',     '-std=c++11 -O1', 'dev'),
    'clang-asan': ('clang++', '-std=c++11 -O1 ' + SAN + ' -fno-sanitize=object-size', 'single'),
    'gcc-asan':   ('g++',     '-std=c++11 -O1 ' + SAN, 'single'),
    'clang-asan-dev': ('clang++', '-std=c++11 -O1 ' + SAN + ' -fno-sanitize=object-size', 'dev'),
    'gcc-O2':     ('g++',     '-std=c++11 -O2', 'single'),
    'gcc-vg':     ('g++',     '-std=c++11 -O1 -g', 'single'),      # executed under valgrind memcheck
    'clang-vlog': ('clang++', '-std=c++11 -O0 -DHFSM2_ENABLE_VERBOSE_DEBUG_LOG', 'single'),
    'clang-tsan': ('clang++', '-std=c++11 -O1 -g -fsanitize=thread', 'single'),
    'gcc-tsan':   ('g++',     '-std=c++11 -O1 -g -fsanitize=thread', 'single'),
    'u-clang-asan': ('clang++', '-std=c++17 -O0 ' + SAN + ' -fno-sanitize=object-size', 'single'),
    'u-gcc':      ('g++',     '-std=c++17 -O0', 'single'),
    'u-gcc-O2':   ('g++',     '-std=c++17 -O2', 'single'),
    'u-clang-O1': ('clang++', '-std=c++17 -O1', 'single'),
    'u-gcc-vlog': ('g++',     '-std=c++17 -O0 -DHFSM2_ENABLE_VERBOSE_DEBUG_LOG', 'single'),
    'u-clang-vlog': ('clang++', '-std=c++11 -O1 -DHFSM2_ENABLE_VERBOSE_DEBUG_LOG', 'single'),
    'u-clang-dev': ('clang++', '-std=c++11 -O0', 'dev'),
    'id-clang':   ('clang++', '-std=c++11 -O0', 'single'),
    'id-gcc':     ('g++',     '-std=c++11 -O0', 'single'),
    'id-gcc17':   ('g++',     '-std=c++17 -O0', 'single'),
    'id-clang-dev': ('clang++', '-std=c++11 -O0', 'dev'),
}
SAN_ENV = {'TSAN_OPTIONS': 'halt_on_error=1:exitcode=66:second_deadlock_stack=1', 'ASAN_OPTIONS': 'halt_on_error=1:detect_leaks=0:exitcode=77:abort_on_error=0', 'UBSAN_OPTIONS': 'print_stacktrace=1:halt_on_error=1:exitcode=78'}

def sha(*parts):
    h = hashlib.sha1()
    for p in parts: h.update(p if isinstance(p, bytes) else str(p).encode()); h.update(b'\0')
    return h.hexdigest()

def tree_hash(root, exts=('.hpp', '.inl', '.h', '.py')):
    h = hashlib.sha1()
    for d, dirs, files in sorted(os.walk(root)):
        dirs.sort()
        for f in sorted(files):
            if f.endswith(exts):
                p = os.path.join(d, f)
                h.update(os.path.relpath(p, root).encode()); h.update(open(p, 'rb').read())
    return h.hexdigest()

_lib_hash = None
def lib_hash():
    """content hash of the library sources in the repository's *current working tree*"""
    global _lib_hash
    if _lib_hash is None:
        _lib_hash = sha(tree_hash(os.path.join(REPO, 'include')), tree_hash(os.path.join(REPO, 'development')))
    return _lib_hash
def harness_hash():
    return tree_hash(os.path.join(VERIF, 'harness'))

def join_differs():
    """re-run tools/join.py into a scratch dir: does development/ produce the shipped single header?"""
    tmp = tempfile.mkdtemp(prefix='vjoin', dir=scratch())
    try:
        os.makedirs(os.path.join(tmp, 'tools')); os.makedirs(os.path.join(tmp, 'include', 'hfsm2'))
        shutil.copy(os.path.join(REPO, 'tools', 'join.py'), os.path.join(tmp, 'tools', 'join.py'))
        os.symlink(os.path.join(REPO, 'development'), os.path.join(tmp, 'development'))
        r = subprocess.run([sys.executable, 'join.py'], cwd=os.path.join(tmp, 'tools'), capture_output=True, timeout=120)
        if r.returncode != 0: return True
        a = open(os.path.join(tmp, 'include', 'hfsm2', 'machine.hpp'), 'rb').read()
        b = open(os.path.join(REPO, 'include', 'hfsm2', 'machine.hpp'), 'rb').read()
        return a != b
    except Exception:
        return True
    finally:
        shutil.rmtree(tmp, ignore_errors=True)

def scratch():
    p = os.path.join(BUILD, 'tmp'); os.makedirs(p, exist_ok=True); return p

def prune_cache(keep=6):
    """old library versions' builds are dropped; never one touched in the last three hours (another check may be using it)"""
    root = os.path.join(BUILD, 'cache')
    if not os.path.isdir(root): return
    now = time.time()
    ds = sorted((os.path.getmtime(os.path.join(root, d)), d) for d in os.listdir(root))
    for mt, d in ds[:-keep]:
        if now - mt > 3 * 3600: shutil.rmtree(os.path.join(root, d), ignore_errors=True)

def build_one(tu_text, flavour, extra_flags='', name='tu', guard=True):
    """compile one generated TU (cached on content); returns (binary path or None, compiler output)"""
    cc, flags, hdr = FLAVOURS[flavour]
    inc = os.path.join(REPO, 'include') if hdr == 'single' else os.path.join(REPO, 'development')
    key = sha(lib_hash(), harness_hash(), tu_text, cc, flags, extra_flags, hdr, guard)
    d = os.path.join(BUILD, 'cache', lib_hash()[:12], key[:2], key)
    binp = os.path.join(d, 'bin')
    if os.path.exists(binp): return binp, ''
    if os.path.exists(os.path.join(d, 'FAILED')): return None, open(os.path.join(d, 'FAILED')).read()
    os.makedirs(d, exist_ok=True)
    src = os.path.join(d, name + '.cpp')
    with open(src, 'w') as f: f.write(tu_text)
    cmd = [cc] + flags.split() + extra_flags.split() + ['-w'] + (['-D' + GUARD] if guard else []) + ['-I', inc, '-I', os.path.join(VERIF, 'harness'), src, '-o', binp + '.tmp']
    out = ''
    for attempt in (0, 1):
        try:
            r = subprocess.run(cmd, capture_output=True, text=True, timeout=1500)
        except subprocess.TimeoutExpired:
            out = 'TRANSIENT: compiler timeout'; continue
        if r.returncode == 0: break
        out = (r.stdout + r.stderr)[:6000]
        # a compiler killed by the machine (memory pressure, signals) says nothing about the sources: retry once, never cache
        if r.returncode < 0 or any(t in out for t in ('Killed', 'internal compiler error', 'memory exhausted', 'Cannot allocate', 'Resource temporarily unavailable')):
            out = 'TRANSIENT: ' + out; time.sleep(5); continue
        os.makedirs(d, exist_ok=True)
        with open(os.path.join(d, 'FAILED'), 'w') as f: f.write(out)
        return None, out
    else:
        return None, out
    os.rename(binp + '.tmp', binp)
    return binp, ''

def pmap(fn, items, jobs=None):
    with cf.ThreadPoolExecutor(max_workers=jobs or JOBS) as ex:
        return list(ex.map(fn, items))

def run_bin(binp, args, timeout=300, env=None, stdout_path=None, memcheck=False):
    e = dict(os.environ); e.update(SAN_ENV)
    if memcheck: args = ['-q', '--error-exitcode=99', '--track-origins=no', binp] + list(args); binp = 'valgrind'
    if env: e.update(env)
    try:
        if stdout_path:
            with open(stdout_path, 'w') as so:
                r = subprocess.run([binp] + args, stdout=so, stderr=subprocess.PIPE, text=True, timeout=timeout, env=e)
            return r.returncode, '', r.stderr
        r = subprocess.run([binp] + args, capture_output=True, text=True, timeout=timeout, env=e)
        return r.returncode, r.stdout, r.stderr
    except subprocess.TimeoutExpired as ex:
        return -999, '', 'TIMEOUT'

# ---------------------------------------------------------------------------------------------
# sanitizer report -> stable key

import re
def sanitizer_key(stderr):
    """error kind + first frame inside hfsm2:: (template arguments and line numbers stripped)"""
    s = stderr[:200000]
    m = re.search(r'ERROR: AddressSanitizer: ([a-zA-Z0-9_-]+)', s)
    kind = None
    if m: kind = 'asan:' + m.group(1)
    elif 'WARNING: ThreadSanitizer: ' in s: kind = 'tsan:' + re.search(r'WARNING: ThreadSanitizer: ([a-z A-Z-]+)', s).group(1).strip().replace(' ', '-')
    elif re.search(r'==\d+== (Invalid|Conditional jump|Use of uninit|Syscall param)', s): kind = 'memcheck:' + re.search(r'==\d+== (Invalid \w+|Conditional jump|Use of uninit\w*|Syscall param)', s).group(1).replace(' ', '-')
    else:
        m = re.search(r'runtime error: ([^\n]{0,80})', s)
        if m:
            msg = re.sub(r'0x[0-9a-f]+', 'ADDR', m.group(1)); msg = re.sub(r'\d+', 'N', msg)
            kind = 'ubsan:' + msg.strip()[:60].replace(' ', '-')
    if kind is None:
        if 'WATCHDOG' in s: kind = 'hang'
        else: return None
    frame = '?'
    for fm in re.finditer(r'(?:#\d+ 0x[0-9a-f]+ in |==\d+==\s+(?:at|by) 0x[0-9A-Fa-f]+: )([^\n]{0,4000})', s):
        fn = fm.group(1)
        if 'hfsm2::' in fn:
            fn = re.sub(r'<[^<>]*>', '', fn)
            for _ in range(12): fn = re.sub(r'<[^<>]*>', '', fn)
            fn = re.sub(r'\(.*', '', fn)
            fn = fn.split(' ')[-1] if ' ' in fn.strip() else fn
            mm = re.search(r'hfsm2::(?:detail::)?([A-Za-z_0-9]+(?:::[A-Za-z_0-9~]+)*)', fn)
            frame = mm.group(1) if mm else fn[:60]
            break
    return kind + '|' + frame

# ---------------------------------------------------------------------------------------------
# known findings

def load_known():
    p = os.path.join(VERIF, 'known_findings.json')
    if not os.path.exists(p): return []
    return json.load(open(p))['findings']

def match_known(known, prop, key):
    for k in known:
        if k.get('status', 'open') != 'open' or not k.get('key'): continue
        if k['property'] != prop: continue
        pat = k['key']
        if pat.endswith('*'):
            if key.startswith(pat[:-1]): return k
        elif key == pat: return k
    return None

# ---------------------------------------------------------------------------------------------

class Verdict:
    """collects violations of one property over many runs, adjudicates against known findings, writes evidence"""
    def __init__(self, prop, tier, seed):
        self.prop = prop; self.tier = tier; self.seed = seed
        self.viol = {}      # key -> {'count', 'first', 'runs'}
        self.other = {}     # violations of other properties seen on the way (reported, not judged here)
        self.inconclusive = []
        self.harness_errors = []
        self.t0 = time.time()
        self.known = load_known()
    def add(self, key, count, first, run):
        e = self.viol.setdefault(key, {'count': 0, 'first': first, 'run': run, 'runs': 0})
        e['count'] += count; e['runs'] += 1
    def add_other(self, prop, key, count):
        self.other[prop + '.' + key] = self.other.get(prop + '.' + key, 0) + count
    def finish(self, coverage, assumptions, level='exploration'):
        wall = time.time() - self.t0
        transient = [h for h in self.harness_errors if 'TRANSIENT:' in h]
        if transient:
            self.harness_errors = [h for h in self.harness_errors if 'TRANSIENT:' not in h]
            for h in transient[:5]: print('INCONCLUSIVE: %s' % h[:300])
            self.inconclusive.extend({'build': h[:300]} for h in transient[:10])
        os.makedirs(os.path.join(EVID, 'replays'), exist_ok=True)
        new = []; knownhits = {}
        for key, e in self.viol.items():
            k = match_known(self.known, self.prop, key)
            if k is not None:
                kh = knownhits.setdefault(k['key'], {'finding': k, 'count': 0, 'keys': []})
                kh['count'] += e['count']; kh['keys'].append(key)
            else:
                new.append((key, e))
        for kh in knownhits.values():
            print('KNOWN-FINDING: property=%s %s [key %s, %d observations]' % (self.prop, kh['finding']['description'], kh['finding']['key'], kh['count']))
        replay_paths = []
        import glob
        for old in glob.glob(os.path.join(EVID, 'replays', self.prop + '-*.json')):
            try: os.unlink(old)
            except OSError: pass
        for key, e in new:
            rp = os.path.join(EVID, 'replays', '%s-%s.json' % (self.prop, sha(key)[:10]))
            with open(rp, 'w') as f: json.dump({'property': self.prop, 'key': key, 'count': e['count'], 'first': e['first'], 'run': e['run'], 'seed': self.seed, 'tier': self.tier}, f, indent=1, default=str)
            replay_paths.append(rp)
            print('VIOLATION property=%s replay=%s' % (self.prop, rp))
            print('  key: %s  (%d observations)  first: %s' % (key, e['count'], json.dumps(e['first'], default=str)[:700]))
        cov = dict(coverage)
        cov['known_finding_hits'] = {k: v['count'] for k, v in knownhits.items()}
        cov['other_property_observations'] = self.other
        cov['inconclusive_runs'] = self.inconclusive[:10]
        ev = {'property_id': self.prop, 'tier': self.tier, 'seed': self.seed, 'level': level, 'coverage': cov, 'assumptions': assumptions,
              'wall_s': round(wall, 2), 'violations': len(new)}
        with open(os.path.join(EVID, self.prop + '.json'), 'w') as f: json.dump(ev, f, indent=1, default=str)
        if self.harness_errors:
            for h in self.harness_errors[:5]: print('HARNESS-ERROR: %s' % h)
        if new: return 1
        if self.harness_errors: return 2
        if cov.get('evaluations', 0) < 1 or cov.get('distinct_nontrivial', 0) < 2:
            print('INCONCLUSIVE: the run observed nothing relevant for %s' % self.prop); return 2
        print('HELD property=%s tier=%s seed=%s evaluations=%s distinct_nontrivial=%s wall=%ds' % (self.prop, self.tier, self.seed, cov.get('evaluations'), cov.get('distinct_nontrivial'), wall))
        return 0
