#!/usr/bin/env python3
"""Replays one witness: rebuilds the generated program from the shape stored in the witness file, re-runs the seed with
full tracing, re-checks it and prints the log window around the first violation with the monitor's explanation."""
import os, sys, json
sys.path.insert(0, os.path.dirname(os.path.abspath(__file__)))
import vlib
import shapes as shp

def main(path, window=45):
    w = json.load(open(path))
    run = w.get('run') or {}
    print('property %s  key %s  (%s observations)' % (w['property'], w['key'], w.get('count')))
    if run.get('profile') in ('prefill', 'threads', 'memcheck', 'c15') or w['property'] in ('C15', 'C17'):
        print('differential / structural witness (shape %s, flavour %s):' % (run.get('shape'), run.get('flavour')))
        print(json.dumps(w.get('first'), indent=1, default=str)[:4000])
        print('re-run: VERIF_SEED=%s python3 bin/check.py %s --tier %s' % (w.get('seed'), w['property'], w.get('tier')))
        return 1
    if 'cmd' in run:      # unit harness witness
        print('re-run:', run['cmd']); return os.system(run['cmd']) >> 8
    sj = run['sj']; flavour = run['flavour']
    hdr = '<hfsm2/machine_dev.hpp>' if vlib.FLAVOURS[flavour][2] == 'dev' else '<hfsm2/machine.hpp>'
    binp, out = vlib.build_one(shp.emit_tu(sj, header=hdr), flavour, name=sj['name'])
    if not binp: print('build failed:\n' + out); return 2
    logp = os.path.join(vlib.scratch(), 'replay-%d.log' % os.getpid())
    args = [a for a in run['args'] if not a.startswith('log=')] + ['log=' + logp]
    rc, so, se = vlib.run_bin(binp, args, timeout=900)
    print('shape %s  %s  cfg %s  flavour %s' % (sj['name'], sj['desc'], sj['cfg'], flavour))
    print('harness: %s %s  -> exit %d' % (binp, ' '.join(args), rc))
    if se.strip(): print('stderr:\n' + se[-3000:])
    import check_log, logparse, check
    header, ops, trailer, stray = logparse.parse(logp)
    knobs = {k: v for k, v in check.PROFILES.get(run.get('profile'), {}).items() if k in ('zeroUtil', 'palette', 'pConsume', 'fineUtil')}
    knobs['mirror'] = 1 if check.PROFILES.get(run.get('profile'), {}).get('verboseMethods') else 0
    knobs['plans'] = 1 if check.PROFILES.get(run.get('profile'), {}).get('planDump') else 0
    knobs['taskcap'] = sj['cfg'].get('taskcap') or 2 * sj['expect']['COMPO_PRONGS']
    chk = check_log.Checker(sj, int(header[3]), knobs, int(header[5]), header[4] == '1')
    chk.run(ops)
    hit = None
    for key, e in chk.viol.items():
        if key == w['property'] + '.' + w['key']: hit = e; break
    if hit is None:
        print('NOT REPRODUCED: the monitor does not report %s on this run; violations seen: %s' % (w['key'], list(chk.viol)[:8]))
        return 0
    print('REPRODUCED %d times; first: %s' % (hit['count'], json.dumps(hit['first'], default=str)[:3000]))
    line = hit['first'].get('line') or 1
    lines = open(logp).read().split('\n')
    print('--- log (%s) around line %d; grammar in harness/vh*.hpp' % (logp, line))
    # show from the operation start to its end
    end = line
    while end < len(lines) and not lines[end].startswith('E'): end += 1
    for i in range(max(0, line - 1 - window), min(len(lines), end + 1)):
        print('%7d  %s' % (i + 1, lines[i][:220]))
    return 1

if __name__ == '__main__':
    sys.exit(main(sys.argv[1]))
