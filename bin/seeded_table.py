#!/usr/bin/env python3
"""prints the markdown table of DESIGN.md section 11 from seeded/*/meta.json and notes.md"""
import os, json, re, glob
V = os.path.dirname(os.path.dirname(os.path.abspath(__file__)))
rows = []
for d in sorted(glob.glob(os.path.join(V, 'seeded', '*'))):
    mid = os.path.basename(d)
    try: m = json.load(open(os.path.join(d, 'meta.json')))
    except Exception: continue
    notes = open(os.path.join(d, 'notes.md')).read() if os.path.exists(os.path.join(d, 'notes.md')) else ''
    summ = m.get('summary') or ''
    det = m.get('detection') or {}
    caught = '; '.join('%s: %s' % (p, ('**caught** (`%s`)' % (r['violation_keys'][0][:70]) if r.get('exit') == 1 and r.get('violation_keys') else ('exit %s' % r.get('exit')))) for p, r in sorted(det.items()))
    conf = 'yes' if (m.get('confirmed') or m.get('reconfirmed_at')) else ('pending' if m.get('confirmed') is None else 'NO')
    rows.append('| %s | %s | %s | %s | %s | %s |' % (mid, m.get('property'), summ.replace('|', '/') or '(see notes.md)', (m.get('needs_short') or '').replace('|', '/'), conf, caught))
print('| id | property | change | needs, to manifest | confirmed (tests pass, demo fails with / passes without) | quick-tier detection |')
print('|---|---|---|---|---|---|')
print('\n'.join(rows))
