#!/usr/bin/env python3
"""Offline setup: nothing to fetch. Creates the scratch/build directories and warms the build cache with the quick-tier
programs of the shared shape harness so that the first check does not pay for all compilations."""
import os, sys
sys.path.insert(0, os.path.dirname(os.path.abspath(__file__)))
import vlib, check
import shapes as shp
os.makedirs(os.path.join(vlib.VERIF, 'evidence', 'replays'), exist_ok=True)
vlib.scratch()
seed = int(os.environ.get('VERIF_SEED', '0'))
jobs = [(sj, fl, '') for sj in shp.shape_set(seed, check.TIERS['quick']['n_random']) for fl in ('gcc', 'clang')]
res = vlib.pmap(check.build_job, jobs)
bad = [r for r in res if r[3] is None]
print('setup: built %d/%d quick-tier harness programs' % (len(res) - len(bad), len(res)))
for r in bad[:3]: print('  build failed:', r[0]['name'], r[1], r[4][:300])
sys.exit(0)
