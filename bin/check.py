#!/usr/bin/env python3
"""check.py <property> [--tier quick|thorough] [--seed N] | --replay <file>

Decides one property on /repo's current working tree by running generated programs under monitors.
exit 0: held on everything explored; exit 1: VIOLATION line(s) printed; exit 2: inconclusive / harness failure.
"""
import os, sys, json, time, argparse, random, hashlib, tempfile, shutil, zlib, concurrent.futures as cf
sys.path.insert(0, os.path.dirname(os.path.abspath(__file__)))
import vlib
from vlib import VERIF, REPO
import shapes as shp

# ---------------------------------------------------------------------------------------------
# profiles: knob sets handed to the harness binary (see harness/vh.hpp Knobs, vh_main.hpp Driver)

BASE = dict(pIssue=30, pGuardCancel=80, pGuardIssue=60, maxBatch=3, wfEvery=5, pendq=1)
PROFILES = {
    'mixed':     dict(BASE),
    'c10-diff':  dict(BASE, wPlanEdit=3, wExtStatus=1, pPlanInCb=60, pSucceed=150, pFail=20, pNoPayload=300, wSaveLoad=5),     # differential runs: plans and payload-less tasks included
    'hostile':   dict(BASE, palette=1, wfEvery=1, wReset=2, wExitEnter=2, pGuardCancel=120, pGuardIssue=120, wImmediate=4),
    'requests':  dict(BASE, pGuardCancel=0, pGuardIssue=25, pIssue=60, maxBatch=6, wImmediate=3),
    'single':    dict(BASE, pGuardCancel=60, pGuardIssue=0, pIssue=0, maxBatch=1, wImmediate=5),
    'lifecycle': dict(BASE, wReset=3, wExitEnter=4, wRecreate=25, pGuardCancel=100, pGuardIssue=80),
    'guards':    dict(BASE, pInjCancel=120, pGuardCancel=160, pGuardIssue=260, pIssue=40, maxBatch=2),
    'guards-lo': dict(BASE, pInjCancel=40, pGuardCancel=40, pGuardIssue=400, pIssue=20, maxBatch=1),
    'history':   dict(BASE, pGuardCancel=100, pGuardIssue=150, wReset=1, wExitEnter=1, replica=1),
    'replica':   dict(BASE, pGuardCancel=60, pGuardIssue=40, pIssue=20, maxBatch=2, replica=1, kinds=0x4f),
    'replica-enter': dict(BASE, pGuardCancel=20, pGuardIssue=250, pIssue=20, maxBatch=2, replica=1, kinds=0x4f, wExitEnter=20, wReset=2),      # many re-activations whose guards redirect: replayEnter()
    'order':     dict(BASE, pConsume=120, pGuardCancel=50, pGuardIssue=30, wReact=8, wQuery=5, wUpdate=6),
    'order-lo':  dict(BASE, pConsume=25, wReact=8, wQuery=5, wUpdate=6),
    'serial':    dict(BASE, wSaveLoad=35, pGuardCancel=40, pGuardIssue=30, wExitEnter=2, wReset=1),
    'plans':     dict(BASE, pNoPayload=300, planDump=1, wPlanEdit=4, wExtStatus=2, pSucceed=180, pFail=40, pPlanInCb=40, pHeadStatus=60, pGuardCancel=40, pGuardIssue=20, pIssue=15, maxBatch=1, kinds=0x7f),
    'plans-edit': dict(BASE, pNoPayload=300, planDump=1, wPlanEdit=12, wExtStatus=1, pSucceed=60, pFail=10, pPlanInCb=150, pGuardCancel=20, pGuardIssue=10, pIssue=10, maxBatch=1),
    'utility':   dict(BASE, kinds=0x31, pGuardCancel=30, pGuardIssue=30, pIssue=40, maxBatch=2, wReset=2, wImmediate=4),
    'utility-hostile': dict(BASE, kinds=0x31, palette=1, pGuardCancel=0, pGuardIssue=0, pIssue=20, maxBatch=1, wReset=2, wImmediate=6),
    'utility-fine': dict(BASE, kinds=0x31, palette=2, fineUtil=1, pGuardCancel=0, pGuardIssue=0, pIssue=20, maxBatch=1, wReset=2, wImmediate=6),
    'subst':     dict(BASE, pGuardCancel=300, pGuardIssue=350, pIssue=0, maxBatch=1, wImmediate=5),      # single requests that guards veto and replace
    'mirror':    dict(BASE, verboseMethods=1, logAnswers=1, structDump=1, pGuardCancel=100, pGuardIssue=80, wReset=2, wExitEnter=2, wQuery=2),
    'mirror-fine': dict(BASE, verboseMethods=1, logAnswers=1, structDump=1, kinds=0x31, palette=2, fineUtil=1, pGuardCancel=0, pGuardIssue=0, pIssue=20, maxBatch=1, wReset=2, wImmediate=6),
    'mirror-serial': dict(BASE, verboseMethods=1, logAnswers=1, structDump=1, wSaveLoad=30, wExitEnter=3, wReset=1, pGuardCancel=40, pGuardIssue=30),
    'mirror-idle': dict(BASE, verboseMethods=1, logAnswers=1, structDump=1, pIssue=2, maxBatch=1, pGuardCancel=0, pGuardIssue=0, wQuery=0, wReact=0, wImmediate=1, wReset=0, wExitEnter=0),
    'mirror-plans': dict(BASE, verboseMethods=1, logAnswers=1, structDump=1, planDump=1, wPlanEdit=3, wExtStatus=2, pSucceed=150, pFail=40, pHeadStatus=50, pGuardCancel=40, pGuardIssue=20, pIssue=15, maxBatch=1),
    'burst':     dict(BASE, wOverlong=30, maxBatch=14, pIssue=300, pGuardIssue=500, pGuardCancel=120, wSaveLoad=10, wPlanEdit=3, wExtStatus=1, pSucceed=150, pFail=30, pPlanInCb=300, planDump=0, wReset=1, wExitEnter=1, wRecreate=10),
    'alloc':     dict(BASE, _nolog=1, _extra='-DVH_ALLOC_HOOK', _flavours=['gcc', 'clang'], _every=2, _phase=0, pendq=0, wSaveLoad=10, wPlanEdit=3, wExtStatus=1, pSucceed=100, pFail=20, pPlanInCb=100, wReset=1, wExitEnter=1, maxBatch=10, pIssue=100, pGuardIssue=200),
    'ordinary':  dict(BASE, wOverlong=10, wSaveLoad=8, wPlanEdit=2, wExtStatus=1, pSucceed=80, pFail=20, pPlanInCb=40, wReset=1, wExitEnter=1, wRecreate=5, replica=0),
    'copies':    dict(BASE, copies=40, pIssue=0, pGuardCancel=0, pGuardIssue=0, maxBatch=3, wReset=1, wExitEnter=1, wImmediate=3),
    'c15-core':  dict(BASE, kinds=0x4f, pGuardIssue=0, pGuardCancel=80, pIssue=40, maxBatch=3, pendq=0, wReset=1, wExitEnter=1, wQuery=1, pConsume=40, wfEvery=0),
    'c15-utility': dict(BASE, kinds=0x7f, pGuardIssue=0, pGuardCancel=80, pIssue=40, maxBatch=3, pendq=0, wReset=1, wExitEnter=1, wQuery=1, pConsume=40, wfEvery=0),
    'c15-guards': dict(BASE, kinds=0x4f, pGuardIssue=120, pGuardCancel=40, pIssue=30, maxBatch=2, pendq=0, wReset=1, wExitEnter=1, wQuery=1, pConsume=30, wfEvery=0, wImmediate=4),
    'c15-plans': dict(BASE, kinds=0x4f, pGuardIssue=0, pGuardCancel=60, pIssue=20, maxBatch=2, pendq=0, wReset=1, wExitEnter=3, wQuery=1, pConsume=30, wfEvery=0, wPlanEdit=4, wExtStatus=2, pSucceed=180, pFail=40, pPlanInCb=40, pHeadStatus=60),
    'payload-plans': dict(BASE, planDump=1, wPlanEdit=5, wExtStatus=2, pSucceed=300, pFail=20, pPlanInCb=60, pGuardCancel=30, pGuardIssue=20, pIssue=15, maxBatch=2, pNoPayload=350, kinds=0x7f),
    'payload':   dict(BASE, pGuardCancel=60, pGuardIssue=100, pIssue=80, maxBatch=4, pNoPayload=200),
}
PROFILES['memcheck'] = dict(PROFILES['burst'], _flavours=['gcc-vg'], _every=2, _phase=1)      # valgrind memcheck: uninitialised reads, which ASan/UBSan do not see

# property -> engine configuration
SHAPE_PROPS = {
    'C01': dict(profiles=['hostile', 'mixed', 'serial', 'replica'], title='well-formed configuration'),
    'C02': dict(profiles=['requests', 'single', 'mixed'], title='prescribed configuration'),
    'C03': dict(profiles=['lifecycle', 'mixed', 'serial', 'replica'], title='lifecycle callbacks'),
    'C04': dict(profiles=['guards', 'guards-lo'], title='guards / veto / rounds'),
    'C05': dict(profiles=['order', 'order-lo'], title='delivery order'),
    'C06': dict(profiles=['plans'], title='plans'),
    'C07': dict(profiles=['plans-edit', 'plans'], title='plan storage'),
    'C08': dict(profiles=['serial'], title='save/load'),
    'C09': dict(profiles=['history', 'replica', 'replica-enter', 'single'], title='history'),
    'C11': dict(profiles=['ordinary', 'burst', 'alloc', 'memcheck'], title='memory safety / UB / assertions / allocation', flavours={'quick': ['clang-asan', 'gcc'], 'thorough': ['clang-asan', 'gcc-asan', 'gcc', 'clang-dev', 'gcc-O2']}),
    'C12': dict(profiles=['utility', 'utility-hostile', 'utility-fine'], title='utility / random selection'),
    'C16': dict(profiles=['mirror', 'mirror-idle', 'mirror-plans', 'mirror-fine', 'mirror-serial'], title='logger / structure report', flavours={'quick': ['gcc', 'clang', 'clang-vlog'], 'thorough': ['gcc', 'clang', 'clang-vlog', 'gcc17', 'clang-dev']}),
    'C13': dict(profiles=['single', 'mixed', 'subst'], title='queries'),
    'C14': dict(profiles=['payload', 'payload-plans'], title='payloads'),
}
RULES = {
    'C01': 'evaluations = API operations whose quiescent snapshot (and sampled in-callback views) were checked for well-formedness; distinct_nontrivial = distinct (shape, active, resumable) configurations observed',
    'C02': 'evaluations = API operations replayed through the reference interpreter; distinct_nontrivial = distinct (shape, configuration before, request batch, configuration after) tuples in which the configuration changed',
    'C03': 'evaluations = API operations whose callback stream went through the lifecycle automaton; distinct_nontrivial = distinct (shape, active, resumable) configurations reached',
    'C04': 'evaluations = processing steps whose guard rounds were segmented and checked; distinct_nontrivial = distinct (shape, configuration, rounds, vetoes) with at least one vetoed round',
    'C05': 'evaluations = update()/react()/query() calls whose delivery sequence was compared with the sequence computed from the configuration; distinct_nontrivial = distinct (shape, configuration, call kind, consuming (phase,state) set)',
    'C06': 'evaluations = update()/react() steps run through the plan interpreter; distinct_nontrivial = distinct (shape, configuration, executed task ids / plan notifications) outcomes with at least one execution or notification',
    'C07': 'evaluations = plan edits (append / remove-while-iterating / clear) applied and compared; distinct_nontrivial = distinct (shape, per-region task id lists) plan contents observed',
    'C08': 'evaluations = save/load pairs between two independently walked instances; distinct_nontrivial = distinct (shape, destination configuration before, saved active, saved resumable) triples',
    'C09': 'evaluations = steps whose previousTransitions()/lastTransitionTo() were compared with the interpreter; distinct_nontrivial = distinct (shape, recorded history, configuration) with a non-empty history',
    'C11': 'evaluations = API operations executed under AddressSanitizer/UBSan or with live library assertions (HFSM2_VERIF); distinct_nontrivial = distinct (shape, active, resumable) configurations reached while doing so',
    'C12': 'evaluations = select/utility/random resolutions compared with the interpreter (weighted draws additionally re-checked in exact rational arithmetic); distinct_nontrivial = distinct (region, rank vector, utility vector, generator output) draws and (region, utility vector) choices',
    'C16': 'evaluations = user callbacks matched against the logger stream plus structure()/activityHistory() snapshots; distinct_nontrivial = distinct (shape, activity-history vector) values observed after a change',
    'C13': 'evaluations = quiescent query checks; distinct_nontrivial = distinct (shape, configuration before, after) of single-request rounds whose isPending* vectors were compared with the enter/exit callbacks; resumes of regions with a reported resumable sub-state are checked against what the resume activated (events: C13.resume-of-a-region-with-a-reported-resumable)',
    'C14': 'evaluations = payload observations (guards, enter, history, lastTransition); distinct_nontrivial = distinct (shape, id tuple recorded in history)',
}
EVAL_KEY = {'C16': 'C16.callbacks-mirrored', 'C12': 'C12.resolutions', 'C06': 'C06.steps', 'C07': 'C07.plan-comparisons', 'C08': 'C08.loads', 'C05': 'C05.deliveries', 'C04': 'C04.guard-calls', 'C13': 'C13.quiescent-checks', 'C14': 'C14.payloads-seen-by-guards'}
ASSUME = [
    'the generated machine shapes and the seeded walks are a sample, not the whole quantifier',
    'the director keeps runs inside the documented preconditions (DESIGN 2.2): select/utilize/randomize only where no anonymous head takes part, positive top-rank utility sums',
    'reenter versus exit+enter for a re-targeted active sub-state is observed but not judged (DESIGN 7.2)',
]

TIERS = {
    'quick':    dict(n_random=6, steps=2500, seeds=2, flavours=['gcc', 'clang']),
    'thorough': dict(n_random=40, steps=10000, seeds=3, flavours=['gcc', 'clang', 'gcc17', 'clang-dev', 'clang-asan']),
}

def knob_args(profile):
    return ['%s=%s' % (k, v) for k, v in sorted(PROFILES[profile].items()) if not k.startswith('_')]

# ---------------------------------------------------------------------------------------------

def build_job(job):
    sj, flavour, extra = job
    hdr = '<hfsm2/machine_dev.hpp>' if vlib.FLAVOURS[flavour][2] == 'dev' else '<hfsm2/machine.hpp>'
    tu = shp.emit_tu(sj, header=hdr)
    binp, out = vlib.build_one(tu, flavour, extra_flags=extra, name=sj['name'])
    return (sj, flavour, extra, binp, out)

def run_job(job):
    """one harness run + offline check; executed in a worker process"""
    sj, flavour, binp, profile, seed, steps, prop, keep = job
    import check_log, logparse
    tmpd = vlib.scratch()
    if os.path.exists(os.path.join(tmpd, 'stop-%d' % os.getppid())):
        # several runs of this check already ended in the watchdog inside a library call: the verdict stands, the rest would only wait
        return {'shape': sj['name'], 'desc': sj['desc'], 'cfg': sj['cfg'], 'sj': sj, 'flavour': flavour, 'profile': profile, 'seed': seed, 'steps': steps, 'rc': 0, 'args': [], 'timeout': True}
    tag = '%s-%s-%s-%d-%d' % (sj['name'], flavour, profile, seed, os.getpid())
    logp = os.path.join(tmpd, tag + '.log')
    nolog = bool(PROFILES[profile].get('_nolog'))
    # watchdog inside the harness: a healthy quick run takes seconds; a library call that never returns is reported with its backtrace
    args = ['steps=%d' % (steps * (8 if nolog else 1)), 'seed=%d' % seed, 'watchdog=%d' % (150 if steps <= 3000 else 600)] + ([] if nolog else ['log=' + logp]) + knob_args(profile)
    rc, out, err = vlib.run_bin(binp, args, timeout=700, stdout_path=logp if nolog else None, memcheck=flavour.endswith('-vg'))
    res = {'shape': sj['name'], 'desc': sj['desc'], 'cfg': sj['cfg'], 'sj': sj, 'flavour': flavour, 'profile': profile, 'seed': seed, 'steps': steps, 'rc': rc, 'args': args}
    skey = vlib.sanitizer_key(err) if err else None
    if rc == 99 and flavour.endswith('-vg') and not skey: skey = 'memcheck:error'
    if skey: res['sanitizer'] = skey; res['stderr'] = err[-3000:]
    if rc == -999: res['timeout'] = True
    if rc == 4:
        # watchdog: a hang is only a verdict when the backtrace shows the process inside the library; otherwise (loaded machine) inconclusive
        if 'hfsm2' in (err or ''): res['hang'] = [l for l in err.split('\n') if 'hfsm2' in l][:3]
        else: res['timeout'] = True
    try:
        stream = logparse.Stream(logp); header = stream.header; stray = stream.stray; trailer = None      # streamed: a thorough log is hundreds of MB
        if header is None and not skey: raise RuntimeError('log has no header')
        # (machines using the built-in generator are checked differentially only: see Checker.lockstep_only)
        knobs = {k: v for k, v in PROFILES[profile].items() if k in ('zeroUtil', 'palette', 'pConsume', 'fineUtil')}
        knobs['plans'] = 1 if PROFILES[profile].get('planDump') else 0
        knobs['mirror'] = 1 if PROFILES[profile].get('verboseMethods') else 0
        knobs['taskcap'] = sj['cfg'].get('taskcap') or 2 * sj['expect']['COMPO_PRONGS']
        chk = check_log.Checker(sj, int(header[3]), knobs, int(header[5]), header[4] == '1')
        chk.run(stream.ops()); trailer = stream.trailer
        if len(header) >= 9 and int(header[7]) >= 0:
            exp = sj['expect']
            if int(header[7]) != exp['SERIAL_BITS'] or int(header[8]) != exp['SERIAL_BYTES']:
                chk.v('C08', 'size|SerialBuffer-size-differs-from-the-structure', None, {'observed-bits': header[7], 'observed-bytes': header[8], 'expected': [exp['SERIAL_BITS'], exp['SERIAL_BYTES']]})
        for sv in stray:
            if sv and isinstance(sv[0], str) and '.' in sv[0] and sv[0][0] == 'C': chk.v(sv[0].split('.')[0], 'inproc|' + sv[0].split('.', 1)[1], None, sv[1:])
        res['summary'] = check_log.summarize(chk, header, trailer, stray)
        res['nt'] = {k: [hash((sj['name'],) + (x if isinstance(x, tuple) else (x,))) & 0xffffffffffff for x in list(v)[:50000]] for k, v in chk.nontrivial.items() if k in (prop, 'C10')}
        res['cfg_hashes'] = [hash((sj['name'], c)) & 0xffffffffffff for c in list(chk.configs)[:50000]]
        res['complete'] = trailer is not None
    except Exception as ex:
        import traceback
        res['error'] = 'checker: %r %s' % (ex, traceback.format_exc()[-800:])
    if prop == 'C16' and 'error' not in res and rc == 0:
        # same program, same seed, logger detached: everything but the logger's own records must be identical
        # ... and with the logger attached and detached at random between operations (attachLogger())
        for mode, suffix, key in ((0, '.nolog', 'detach|behaviour-differs-with-logger-detached'), (2, '.toggle', 'detach|behaviour-differs-when-the-logger-is-attached-and-detached-between-operations')):
            logp2 = logp + suffix
            rc2, out2, err2 = vlib.run_bin(binp, [a for a in args if not a.startswith('log=')] + ['log=' + logp2, 'useLogger=%d' % mode], timeout=600)
            try:
                with open(logp) as f1: a1 = [l for l in f1 if l[0] not in 'tuwxrMB']
                with open(logp2) as f2: a2 = [l for l in f2 if l[0] not in 'tuwxrMB']
                res['summary']['stats']['C16.logger-detached-comparisons'] = res['summary']['stats'].get('C16.logger-detached-comparisons', 0) + 1
                res['summary']['stats']['C16.lines-compared-with-logger-detached'] = res['summary']['stats'].get('C16.lines-compared-with-logger-detached', 0) + len(a1)
                if a1 != a2:
                    i = 0
                    while i < min(len(a1), len(a2)) and a1[i] == a2[i]: i += 1
                    res['summary']['violations']['C16.' + key] = {'property': 'C16', 'count': 1, 'first': {'line': i, 'with-logger': a1[i:i + 3], 'other-run': a2[i:i + 3]}}
            except Exception as ex:
                res['error'] = 'pair compare: %r' % ex
            try: os.unlink(logp2)
            except OSError: pass
    if not keep:
        try: os.unlink(logp)
        except OSError: pass
    else: res['log'] = logp
    return res

def run_unit(V, srcname, flavours, tier, seed, prefix, own_prop, sanitizer_prop=None):
    """stand-alone harness under units/: build per flavour, run, fold its 'V key detail' lines into the verdict.
    Returns {flavour: [comparisons, distinct]}"""
    stats = {}
    def job(fl):
        src = open(os.path.join(vlib.VERIF, 'units', srcname)).read()
        if vlib.FLAVOURS[fl][2] == 'dev': src = src.replace('<hfsm2/machine.hpp>', '<hfsm2/machine_dev.hpp>')
        b, out = vlib.build_one(src, fl, name=srcname.split('.')[0])
        if not b: return (fl, None, 'build failed: ' + out[:800], '')
        rc_, so_, se_ = vlib.run_bin(b, [tier, str(seed)], timeout=1500, memcheck=fl.endswith('-vg'))
        return (fl, rc_, so_, se_)
    for fl, rc_, so_, se_ in vlib.pmap(job, flavours):
        runinfo = {'cmd': 'units/%s %s %d' % (srcname, tier, seed), 'flavour': fl}
        if rc_ is None: V.harness_errors.append('%s %s: %s' % (srcname, fl, so_.replace('\n', ' | ')[:500])); continue
        skey = vlib.sanitizer_key(se_) if se_ else None
        if not skey and rc_ == 99 and fl.endswith('-vg'): skey = 'memcheck:error'
        sp = sanitizer_prop or own_prop
        if skey:
            if sp == V.prop: V.add(skey, 1, {'stderr': se_[-1500:], 'flavour': fl}, runinfo)
            else: V.add_other(sp, skey, 1)
        elif rc_ != 0: V.add('crash|rc=%d' % rc_, 1, {'stderr': se_[-800:], 'flavour': fl}, runinfo)
        for line in so_.split('\n'):
            if line.startswith('V '):
                parts = line.split(' ', 2)
                if own_prop == V.prop: V.add(prefix + parts[1], 1, {'detail': parts[2] if len(parts) > 2 else '', 'flavour': fl}, runinfo)
                else: V.add_other(own_prop, prefix + parts[1], 1)
            elif line.startswith('B '):
                import check_log
                pp = line.split(); key = 'assert|' + check_log.assert_key(pp[1], int(pp[2]))
                if V.prop == 'C11': V.add(key, 1, {'flavour': fl}, runinfo)
                else: V.add_other('C11', key, 1)
            elif line.startswith('Z '):
                z = [int(x) for x in line.split()[1:]]; stats[fl] = {'comparisons': z[0], 'experiments': z[1]}
    return stats

def shape_engine(prop, tier, seed, keep=False):
    conf = dict(SHAPE_PROPS[prop]); T = TIERS[tier]
    if os.environ.get('VERIF_PROFILES'): conf['profiles'] = os.environ['VERIF_PROFILES'].split(',')   # debugging aid
    V = vlib.Verdict(prop, tier, seed)
    vlib.prune_cache()
    flavours = list(conf.get('flavours', {}).get(tier, T['flavours']))
    joindiff = vlib.join_differs()
    if joindiff and 'clang-dev' not in flavours: flavours.append('clang-dev')
    big = ()
    if tier == 'thorough': big = {'C08': ('k_serial_big', 'k_wide_nested', 'k_deep_ortho'), 'C11': ('k_serial_big', 'k_deep_ortho')}.get(prop, ('k_wide_nested', 'k_deep_ortho'))
    if prop in ('C13', 'C01'): big = tuple(big) + ('k_states273',)      # state ids beyond 8 bits (both tiers: the queries of C13 / the invariant of C01)
    shapeset = shp.shape_set(seed, T['n_random'], big=big)
    if prop == 'C16':
        for sj in shapeset[1::2]: shp.add_masks(sj, seed)      # every other shape leaves some methods un-overridden
    if prop == 'C14':
        # payload types: int, 24-byte POD with odd tail, over-aligned 64-byte struct, 1-byte enum
        for i, sj in enumerate(shapeset): sj['cfg']['payload'] = ['int', 'pod24', 'big64', 'tiny'][i % 4]
    t0 = time.time()
    # a profile may ask for every n-th shape only (quick tier; expensive builds): _every / _phase
    def takes(P, idx): return tier != 'quick' or idx % P.get('_every', 1) == P.get('_phase', 0) % P.get('_every', 1)
    def flav_ok(nm, fl): return not (tier == 'quick' and nm == 'k_states273' and fl != 'gcc')     # the 273-state program takes minutes to compile: one compiler in the quick tier
    order = {sj['name']: i for i, sj in enumerate(shapeset)}
    wanted = set()
    for profile in conf['profiles']:
        P = PROFILES[profile]
        for i, sj in enumerate(shapeset):
            if not takes(P, i): continue
            for fl in P.get('_flavours', flavours):
                if flav_ok(sj['name'], fl): wanted.add((sj['name'], fl, P.get('_extra', '')))
    byname = {sj['name']: sj for sj in shapeset}
    builds = vlib.pmap(build_job, [(byname[nm], fl, ex) for nm, fl, ex in sorted(wanted)])
    tb = time.time() - t0
    ok = {}
    for sj, fl, ex, binp, out in builds:
        if binp is None: V.harness_errors.append('build failed: shape %s flavour %s: %s' % (sj['name'], fl, out[:400].replace('\n', ' | ')))
        else: ok[(sj['name'], fl, ex)] = (sj, binp)
    jobs = []
    rng = random.Random(seed * 1000003 + 17)
    for pi, profile in enumerate(conf['profiles']):
      P = PROFILES[profile]
      for (nm, fl, ex), (sj, binp) in sorted(ok.items()):
        if ex != P.get('_extra', '') or fl not in P.get('_flavours', flavours): continue
        if not takes(P, order[nm]): continue
        if P.get('planDump') and sj['cfg'].get('payload') == 'tiny': continue      # one-byte payloads cannot tell tasks apart (ids modulo 256): plans are followed with the wider types only
        if True:
            for si in range(T['seeds']):
                rseed = (seed * 7919 + si * 104729 + pi * 1299709 + (zlib.crc32(sj['name'].encode()) & 0xffff)) % 2000000011 + 1
                jobs.append((sj, fl, binp, profile, rseed, T['steps'], prop, keep))
    if prop == 'C11':
        # copies of machines using the built-in generator, original destroyed first (sanitizer only)
        brng = []
        for sj in shapeset:
            if any(n['strategy'] == 'Random' for n in sj['nodes']):
                e = dict(sj); e['cfg'] = dict(sj['cfg'], builtin_rng=1); e['name'] = sj['name'] + '_brng'; brng.append(e)
        for sj, fl, ex_, binp, out in vlib.pmap(build_job, [(sj, 'clang-asan', '') for sj in brng[:3 if tier == 'quick' else 12]]):
            if binp is None: V.harness_errors.append('build failed: %s: %s' % (sj['name'], out[:300])); continue
            jobs.append((sj, fl, binp, 'copies', seed * 31 + 7, T['steps'], prop, keep))
    results = []; ntacc = set(); cfgacc = set(); sjshare = {}; hangs = 0
    stopflag = os.path.join(vlib.scratch(), 'stop-%d' % os.getpid())
    if os.path.exists(stopflag): os.unlink(stopflag)
    with cf.ProcessPoolExecutor(max_workers=vlib.JOBS) as ex:
        for r in ex.map(run_job, jobs, chunksize=1):
            # merged as they arrive: thousands of runs with tens of thousands of hashes each do not fit in memory as lists
            for h in r.get('nt', {}).get(prop, []): ntacc.add(h)
            for h in r.get('cfg_hashes', []): cfgacc.add(h)
            if r.get('hang'):
                hangs += 1
                if hangs == 4: open(os.path.join(vlib.scratch(), 'stop-%d' % os.getpid()), 'w').close()
            r['nt'] = {}; r['cfg_hashes'] = []
            # every result carries its own unpickled copy of the shape: share one object per shape instead
            key_ = (r.get('shape'), json.dumps(r.get('cfg'), sort_keys=True))
            r['sj'] = sjshare.setdefault(key_, r.get('sj')); r['desc'] = r['sj']['desc'] if r.get('sj') else r.get('desc'); r['cfg'] = r['sj']['cfg'] if r.get('sj') else r.get('cfg')
            if 'summary' in r and len(results) > 64: r['summary']['samples'] = r['summary']['samples'][-1:]; r['summary'].pop('matrix', None)
            results.append(r)
    if os.path.exists(stopflag): os.unlink(stopflag)
    extra = dict(build_s=round(tb, 1), join_output_differs_from_single_header=joindiff)
    if prop == 'C11':
        # the instance flavours the shape harness cannot instantiate (no / pointer / value context), copies and moves with the source destroyed
        extra['context_less_pointer_and_value_context_instances'] = run_unit(V, 'c10_ctxless.cpp', ['u-clang-asan', 'gcc-vg'] + (['u-gcc-O2'] if tier == 'thorough' else []), tier, seed, 'ctxless|', 'C10', sanitizer_prop='C11')
        extra['copied_and_moved_instances_with_pending_tasks'] = run_unit(V, 'c14_copy_tasks.cpp', ['u-clang-asan'], tier, seed, 'copied-tasks|', 'C14', sanitizer_prop='C11')
    if prop == 'C02':
        # batches of two requests meeting in a composite region, one fixed machine, all start configurations (deterministic; observes a recorded finding)
        extra['two_request_batches_meeting_in_a_composite_region'] = run_unit(V, 'c02_batch_ortho.cpp', ['u-gcc', 'u-clang-asan'] + (['u-gcc-O2', 'u-clang-dev'] if tier == 'thorough' else []), tier, seed, 'batch|', 'C02', sanitizer_prop='C11')
    if prop == 'C16':
        # plain states overriding sparse subsets of the callbacks (exactly one of enter / reenter, ...): logger's method records against the callbacks really run
        extra['states_overriding_sparse_subsets_of_methods'] = run_unit(V, 'c16_sparse.cpp', ['u-gcc', 'u-clang-asan', 'u-gcc-vlog', 'u-clang-dev'] + (['u-gcc-O2', 'u-clang-O1', 'u-clang-vlog'] if tier == 'thorough' else []), tier, seed, 'sparse-overrides|', 'C16', sanitizer_prop='C11')
    if prop == 'C14':
        extra['copied_and_moved_instances_with_pending_tasks'] = run_unit(V, 'c14_copy_tasks.cpp', ['u-gcc', 'u-clang-asan'] + (['u-gcc-O2', 'u-clang-O1'] if tier == 'thorough' else []), tier, seed, 'copied-tasks|', 'C14', sanitizer_prop='C11')
    return adjudicate(V, prop, results, shapeset, flavours, extra, ntacc, cfgacc)

def adjudicate(V, prop, results, shapeset, flavours, extra, nt0=None, cfg0=None):
    nt = set(nt0 or ()); cfgs = set(cfg0 or ()); stats = {}; samples = []; evals = 0; completed = 0
    for r in results:
        run = {k: r[k] for k in ('shape', 'desc', 'cfg', 'flavour', 'profile', 'seed', 'steps', 'args', 'sj')}
        if r.get('timeout'):
            V.inconclusive.append(run); continue
        if 'sanitizer' in r:
            p = prop if prop in ('C08', 'C10', 'C11') else 'C11'
            if p == prop: V.add(r['sanitizer'], 1, {'stderr': r['stderr'][-1500:]}, run)
            else: V.add_other(p, r['sanitizer'], 1)
        elif r['rc'] not in (0,):
            if r['rc'] == 4:
                p = 'C04' if prop == 'C04' else 'C11'
                import re as _re
                frame = _re.sub(r'[^A-Za-z_0-9:]', '', (r.get('hang') or ['?'])[0])[:60]
                if p == prop: V.add('hang|inside-library-call', 1, {'rc': r['rc'], 'backtrace': r.get('hang')}, run)
                else: V.add_other(p, 'hang|inside-library-call', 1)
            elif r['rc'] == 3 and prop != 'C11': V.add_other('C11', 'assert|too-many', 1)
            else:
                p = 'C11'
                if p == prop: V.add('crash|rc=%d' % r['rc'], 1, {'rc': r['rc']}, run)
                else: V.add_other(p, 'crash|rc=%d' % r['rc'], 1); V.harness_errors.append('harness exit %d: %s %s %s' % (r['rc'], r['shape'], r['flavour'], ' '.join(r['args'])))
        if 'error' in r:
            V.harness_errors.append('%s %s: %s' % (r['shape'], r['flavour'], r['error'])); continue
        s = r['summary']
        if r.get('complete'): completed += 1
        for key, e in s['violations'].items():
            p = e['property']; k = key.split('.', 1)[1]
            if p == prop: V.add(k, e['count'], e['first'], run)
            elif p == 'C00': V.harness_errors.append('%s: %s' % (r['shape'], key))
            else: V.add_other(p, k, e['count'])
        for k, v in s['stats'].items(): stats[k] = stats.get(k, 0) + v
        evals += s['stats'].get(EVAL_KEY.get(prop, 'ops'), 0)
        for h in r['nt'].get(prop, []): nt.add(h)
        for h in r['cfg_hashes']: cfgs.add(h)
        if len(samples) < 4 and s['samples']:
            sm = dict(s['samples'][-1]); sm.update(shape=r['shape'], desc=r['desc'], flavour=r['flavour'], profile=r['profile'], seed=r['seed']); samples.append(sm)
    distinct = len(nt) if prop in ('C02', 'C04', 'C05', 'C06', 'C07', 'C08', 'C12', 'C16', 'C09', 'C13', 'C14') else len(cfgs)
    cov = {
        'evaluations': evals, 'distinct_nontrivial': distinct, 'rule': RULES[prop], 'samples': samples,
        'runs': len(results), 'runs_completed': completed, 'runs_by_flavour_and_profile': {k: sum(1 for r in results if r['flavour'] + '/' + r['profile'] == k) for k in sorted(set(r['flavour'] + '/' + r['profile'] for r in results))}, 'shapes': [{'name': s['name'], 'desc': s['desc'], 'cfg': s['cfg']} for s in shapeset],
        'flavours': flavours, 'distinct_configurations': len(cfgs), 'events': {k: v for k, v in sorted(stats.items())},
    }
    cov.update(extra)
    return V.finish(cov, ASSUME)

# ---------------------------------------------------------------------------------------------

# ---------------------------------------------------------------------------------------------
# C10: behaviour is a function of inputs, callbacks and random numbers only (differential runs)

def c10_job(job):
    sj, flavour, binp, mode, seed, steps = job
    tmpd = vlib.scratch(); tag = 'c10-%s-%s-%s-%d-%d' % (sj['name'], flavour, mode, seed, os.getpid())
    base = os.path.join(tmpd, tag + '.base.log')
    common = ['steps=%d' % steps, 'seed=%d' % seed] + knob_args('c10-diff')
    out = {'shape': sj['name'], 'desc': sj['desc'], 'cfg': sj['cfg'], 'sj': sj, 'flavour': flavour, 'profile': mode, 'seed': seed, 'steps': steps, 'args': common, 'viol': [], 'ops': 0, 'variants': 0, 'lines': 0}
    def read(p):
        try:
            with open(p) as f: return f.read()
        except OSError: return None
    def ops_of(txt): return txt.count('\nO ')
    def rm(p):
        try: os.unlink(p)
        except OSError: pass
    if mode == 'prefill':
        rc, so, se = vlib.run_bin(binp, common + ['log=' + base])
        ref = read(base); rm(base)
        if rc != 0 or ref is None: out['error'] = 'base run failed rc=%s %s' % (rc, se[-300:]); return out
        out['ops'] = ops_of(ref); out['lines'] = ref.count('\n')
        for fill, off in ((0, 0), (255, 0), (165, 1), (256, 3), (257, 0), (85, 2)):
            p = os.path.join(tmpd, tag + '.v%d_%d.log' % (fill, off))
            rc, so, se = vlib.run_bin(binp, common + ['log=' + p, 'fillByte=%d' % fill, 'addrOffset=%d' % off])
            txt = read(p); rm(p); out['variants'] += 1
            if txt != ref:
                la = ref.split('\n'); lb = (txt or '').split('\n'); i = 0
                while i < min(len(la), len(lb)) and la[i] == lb[i]: i += 1
                out['viol'].append(('prefill|behaviour-depends-on-prior-storage-contents-or-address', {'fillByte': fill, 'addrOffset': off, 'line': i, 'reference': la[i:i + 3], 'variant': lb[i:i + 3], 'args': common}))
    elif mode == 'threads':
        n = 4
        p = os.path.join(tmpd, tag + '.thr.log')
        rc, so, se = vlib.run_bin(binp, common + ['log=' + p, 'threads=%d' % n], timeout=900)
        skey = vlib.sanitizer_key(se)
        if skey: out['viol'].append((skey, {'stderr': se[-1500:]}))
        for t in range(n):
            tp = p + '.%d' % t
            a = read(tp); rm(tp)
            sp = os.path.join(tmpd, tag + '.single%d.log' % t)
            rc2, so2, se2 = vlib.run_bin(binp, ['steps=%d' % steps, 'seed=%d' % (seed + t)] + knob_args('c10-diff') + ['log=' + sp])
            b = read(sp); rm(sp); out['variants'] += 1
            if b is not None: out['ops'] += ops_of(b); out['lines'] += b.count('\n')
            if a != b and not skey:
                out['viol'].append(('threads|instance-behaves-differently-next-to-instances-on-other-threads', {'thread': t, 'args': common}))
    elif mode == 'memcheck':
        p = os.path.join(tmpd, tag + '.vg.log')
        import subprocess
        try:
            r = subprocess.run(['valgrind', '-q', '--error-exitcode=99', '--track-origins=no', binp] + ['steps=%d' % min(steps, 150), 'seed=%d' % seed, 'log=' + p] + knob_args('c10-diff'), capture_output=True, text=True, timeout=900)
            txt = read(p) or ''; rm(p); out['ops'] = ops_of(txt); out['variants'] = 1; out['lines'] = txt.count('\n')
            if r.returncode == 99 or '== Invalid' in r.stderr or 'uninitialised' in r.stderr:
                out['viol'].append((vlib.sanitizer_key(r.stderr) or 'memcheck:error', {'stderr': r.stderr[-1500:]}))
            elif r.returncode != 0: out['error'] = 'valgrind run rc=%d %s' % (r.returncode, r.stderr[-300:])
        except subprocess.TimeoutExpired: out['timeout'] = True
    return out

def c10_engine(prop, tier, seed, keep=False):
    V = vlib.Verdict(prop, tier, seed)
    vlib.prune_cache()
    T = TIERS[tier]
    shapeset = shp.shape_set(seed, 4 if tier == 'quick' else 24)
    # the same shapes with the built-in generator instead of the scripted one (where a random region exists)
    extra = []
    for sj in shapeset:
        if any(n['strategy'] == 'Random' for n in sj['nodes']):
            c = dict(sj['cfg']); c['builtin_rng'] = 1
            e = dict(sj); e['cfg'] = c; e['name'] = sj['name'] + '_brng'; extra.append(e)
    allshapes = shapeset + extra
    plain = ['gcc', 'clang'] if tier == 'quick' else ['gcc', 'clang', 'gcc-O2', 'clang-dev']
    builds = vlib.pmap(build_job, [(sj, fl, '') for sj in allshapes for fl in plain] + [(sj, 'clang-tsan', '') for sj in allshapes[:(3 if tier == 'quick' else 10)]])
    jobs = []; n = 0
    for sj, fl, ex, binp, out in builds:
        if binp is None: V.harness_errors.append('build failed: %s %s: %s' % (sj['name'], fl, out[:300].replace('\n', ' | '))); continue
        rseed = (seed * 7919 + (zlib.crc32(sj['name'].encode()) & 0xffff)) % 2000000011 + 1
        if fl == 'clang-tsan': jobs.append((sj, fl, binp, 'threads', rseed, 1500 if tier == 'quick' else 8000))
        else:
            jobs.append((sj, fl, binp, 'prefill', rseed, T['steps']))
            if fl == 'gcc' and (n % (3 if tier == 'quick' else 1) == 0): jobs.append((sj, fl, binp, 'memcheck', rseed, 150))
            n += 1
    # copies: the ordinary shape engine with pure callbacks (lock-step original / copy), as extra results
    with cf.ProcessPoolExecutor(max_workers=vlib.JOBS) as ex:
        res = list(ex.map(c10_job, jobs, chunksize=1))
    cjobs = []
    for sj, fl, ex_, binp, out in builds:
        if binp is None or fl == 'clang-tsan': continue
        rseed = (seed * 104729 + (zlib.crc32(sj['name'].encode()) & 0xffff)) % 2000000011 + 1
        cjobs.append((sj, fl, binp, 'copies', rseed, T['steps'], prop, keep))
    with cf.ProcessPoolExecutor(max_workers=vlib.JOBS) as ex:
        cres = list(ex.map(run_job, cjobs, chunksize=1))
    evals = 0; distinct = set(); samples = []; variants = 0; lines = 0
    for r in res:
        run = {k: r[k] for k in ('shape', 'desc', 'cfg', 'flavour', 'profile', 'seed', 'steps', 'args', 'sj')}
        if r.get('timeout'): V.inconclusive.append(run); continue
        if 'error' in r: V.harness_errors.append('%s %s %s: %s' % (r['shape'], r['flavour'], r['profile'], r['error'])); continue
        for key, first in r['viol']: V.add(key, 1, first, run)
        evals += r['ops'] * max(1, r['variants']); variants += r['variants']; lines += r['lines']
        distinct.add((r['shape'], r['flavour'], r['profile']))
        if len(samples) < 4: samples.append({'shape': r['shape'], 'desc': r['desc'][:200], 'flavour': r['flavour'], 'mode': r['profile'], 'operations': r['ops'], 'variants-compared': r['variants'], 'log-lines-compared': r['lines']})
    stats = {}
    for r in cres:
        if 'error' in r: V.harness_errors.append('%s %s copies: %s' % (r['shape'], r['flavour'], r['error'])); continue
        run = {k: r[k] for k in ('shape', 'desc', 'cfg', 'flavour', 'profile', 'seed', 'steps', 'args', 'sj')}
        s = r['summary']
        for key, e in s['violations'].items():
            p = e['property']; k = key.split('.', 1)[1]
            if p == 'C10': V.add(k, e['count'], e['first'], run)
            else: V.add_other(p, k, e['count'])
        for k, v in s['stats'].items():
            if k.startswith('C10'): stats[k] = stats.get(k, 0) + v
        for h in r['nt'].get('C10', []): distinct.add(h)
        evals += s['stats'].get('C10.lockstep-operations', 0)
    # instance flavours without a reference context (no context / pointer / value context, built-in generator): stand-alone harness
    unit = run_unit(V, 'c10_ctxless.cpp', ['u-gcc', 'u-clang-asan', 'gcc-vg'] + (['u-gcc-O2', 'u-clang-O1'] if tier == 'thorough' else []), tier, seed, 'ctxless|', 'C10', sanitizer_prop='C10')
    for fl, z in unit.items(): evals += z['comparisons']; distinct.add(('c10_ctxless', fl))
    cov = {'evaluations': evals, 'distinct_nontrivial': len(distinct), 'samples': samples,
           'rule': 'evaluations = API operations executed in differential runs (same program, seed and callback answers; instance storage pre-filled with 0x00/0xFF/0xA5/0x55/noise, at shifted addresses, on 4 threads under ThreadSanitizer, under valgrind memcheck) plus lock-step original/copy operations; distinct_nontrivial = distinct (shape, flavour, mode) differential experiments and (configuration, operation) pairs on which a copy was compared with its original',
           'variants_compared': variants, 'log_lines_compared': lines, 'copy_stats': stats, 'context_less_pointer_and_value_context_instances': unit, 'shapes': [s['name'] for s in allshapes], 'builtin_generator_shapes': [s['name'] for s in extra]}
    return V.finish(cov, ['differential oracle: byte-equality of complete event logs', 'MemorySanitizer is not used (uninstrumented libstdc++); valgrind memcheck on un-prefilled storage plus the pre-fill differential cover uninitialised reads', 'copies share their original\'s context and generator by reference (library design); the scripted generator outlives both'])

# ---------------------------------------------------------------------------------------------
# C15: optional features and header flavour never change unrelated behaviour (trace equality across builds)

FEATURES = ['PLANS', 'SERIALIZATION', 'TRANSITION_HISTORY', 'STRUCTURE_REPORT', 'UTILITY_THEORY', 'DEBUG_STATE_TYPE']
LOGMODES = ['', 'LOG_INTERFACE', 'VERBOSE_DEBUG_LOG']

def c15_configs(tier, rng, fixed_on=()):
    import itertools
    allc = [(bits, lm) for bits in itertools.product((0, 1), repeat=len(FEATURES)) for lm in range(3)]
    allc = [c for c in allc if all(c[0][FEATURES.index(f)] for f in fixed_on)]
    if tier == 'thorough': return allc
    # pairwise-covering subset (greedy), always containing all-off and all-on
    want = set()
    cols = len(FEATURES) + 1
    def cells(c):
        v = list(c[0]) + [c[1]]
        return set((i, j, v[i], v[j]) for i in range(cols) for j in range(i + 1, cols))
    for c in allc: want |= cells(c)
    chosen = [c for c in allc if (sum(c[0]) in (len(fixed_on), len(FEATURES))) and c[1] == 0]
    covered = set()
    for c in chosen: covered |= cells(c)
    pool = list(allc); rng.shuffle(pool)
    while covered != want and len(chosen) < 24:
        best = max(pool, key=lambda c: len(cells(c) - covered))
        if not (cells(best) - covered): break
        chosen.append(best); covered |= cells(best)
    return chosen

def c15_defs(cfg, opts):
    bits, lm = cfg
    d = ['-DVH_FEATURES_SET'] + ['-DHFSM2_ENABLE_' + f for f, b in zip(FEATURES, bits) if b]
    if lm: d.append('-DHFSM2_ENABLE_' + LOGMODES[lm])
    if opts.get('nopayload'): d.append('-DVH_NO_PAYLOAD')
    if opts.get('notypeindex'): d.append('-DHFSM2_DISABLE_TYPEINDEX')
    return ' '.join(d)

def c15_norm(path, cap=None):
    """normalised trace; cap (a list) receives the trace length at the first plan append rejected for lack of task capacity"""
    out = []
    keep = set('OcjkSDvE')
    try:
        with open(path) as f:
            for l in f:
                t = l[0]
                if t in keep:
                    if t == 'S':        # isPending* / activity are not part of the common subset
                        p = l.split(); out.append(' '.join(p[:5]))
                    else: out.append(l.rstrip('\n'))
                elif t == 'A' and cap is not None and not cap:
                    p = l.split()
                    if p[6] == '0': cap.append(len(out))
                elif t == 'q':
                    p = l.split(); out.append('q %s %s %s' % (p[1], p[2], p[4]))
                elif t == 'g':
                    p = l.split(); n = int(p[4]); body = []
                    for i in range(n): body += p[5 + 4 * i + 1: 5 + 4 * i + 4]
                    out.append('g %s %s %s %d %s' % (p[1], p[2], p[3], n, ' '.join(body)))
    except OSError: return None
    return out

def c15_job(job):
    sj, flavour, defs, guard, label, seed, steps, profile = job
    hdr = '<hfsm2/machine_dev.hpp>' if vlib.FLAVOURS[flavour][2] == 'dev' else '<hfsm2/machine.hpp>'
    tu = shp.emit_tu(sj, header=hdr)
    binp, out = vlib.build_one(tu, flavour, extra_flags=defs, name=sj['name'], guard=guard)
    res = {'shape': sj['name'], 'label': label, 'defs': defs, 'flavour': flavour, 'guard': guard}
    if not binp: res['nocompile'] = out[:300]; return res
    logp = os.path.join(vlib.scratch(), 'c15-%s-%d-%d.log' % (sj['name'], os.getpid(), abs(hash(label)) % 100000))
    args = ['steps=%d' % steps, 'seed=%d' % seed, 'log=' + logp, 'useLogger=0'] + knob_args(profile)
    rc, so, se = vlib.run_bin(binp, args, timeout=600)
    res['rc'] = rc; res['args'] = args
    cap = []
    tr = c15_norm(logp, cap)
    res['cap_at'] = cap[0] if cap else None
    try: os.unlink(logp)
    except OSError: pass
    if rc != 0 or tr is None: res['error'] = 'rc=%s %s' % (rc, se[-300:]); return res
    # the trace itself stays on disk: hundreds of configurations x 10^5 events do not fit in the parent's memory
    tpath = logp + '.trace'
    with open(tpath, 'w') as tf: tf.write('\n'.join(tr))
    res['trace'] = True; res['trace_hash'] = hashlib.sha1('\n'.join(tr).encode()).hexdigest(); res['trace_len'] = len(tr); res['trace_file'] = tpath
    return res

def c15_engine(prop, tier, seed):
    V = vlib.Verdict(prop, tier, seed)
    vlib.prune_cache()
    rng = random.Random(seed * 977 + 3)
    T = TIERS[tier]
    nshape = 4 if tier == 'quick' else 8
    families = [
        dict(name='core', fixed=(), profile='c15-core', strategies=['Composite', 'Resumable', 'Selectable']),
        dict(name='utility', fixed=('UTILITY_THEORY',), profile='c15-utility', strategies=shp.STRATS),
        # plans kept on: plan execution must not depend on payload type (the plan executor exists once per payload flavour) or on the other switches
        # guards that substitute without cancelling (rounds that change nothing): the round bookkeeping exists once per TRANSITION_HISTORY setting
        dict(name='guards', fixed=(), profile='c15-guards', strategies=['Composite', 'Resumable', 'Selectable'], nshape=2 if tier == 'quick' else 4, no_subst=True),
        dict(name='plans', fixed=('PLANS',), profile='c15-plans', strategies=['Composite', 'Resumable', 'Selectable'], nshape=2 if tier == 'quick' else 4),
    ]
    jobs = []; meta = {}
    for fam in families:
        shapes_ = []
        fixed = {'core': ['k_ortho_root', 'k_ortho_leafs', 'k_deep', 'k_ortho_wide9'], 'plans': ['k_ortho_root', 'k_headless', 'k_deep'], 'guards': ['k_deep', 'k_ortho_root', 'k_compo_all']}.get(fam['name'], ['k_util_ortho', 'k_compo_all', 'k_select_nested'])
        for i in range(fam.get('nshape', nshape)):
            # every (activation, reaction order) combination appears among the first four programs
            cfg = dict(shp.DEFAULT_CFG); cfg['manual'] = i % 2; cfg['bottomup'] = ((i + 1) // 2) % 2
            if i < len(fixed) and (i % 2 == 0 or tier == 'thorough'): spec = shp.CURATED[fixed[i]]; nm = 'c15%s_%s' % (fam['name'][0], fixed[i])
            else: spec = shp.rand_spec(rng, depth=3, max_width=3, strategies=fam['strategies'], min_states=5, max_states=22); nm = 'c15%s%d_%d' % (fam['name'][0], seed, i)
            shapes_.append(shp.shape_json(nm, spec, cfg))
        configs = c15_configs(tier if len(shapes_) <= 2 or tier == 'quick' else 'quick', rng, fam['fixed'])
        if tier == 'thorough': configs_full = c15_configs('thorough', rng, fam['fixed'])
        for si, sj in enumerate(shapes_):
            cfgs = configs_full if (tier == 'thorough' and si < 2) else configs
            rseed = seed * 131 + si + 1
            for c in cfgs:
                for opts in ({}, {'nopayload': 1}) if (si % 2 == 0 or fam['name'] == 'plans') else ({},):
                    label = '%s|%s|%s' % (''.join(str(b) for b in c[0]), LOGMODES[c[1]] or '-', 'void' if opts.get('nopayload') else 'int')
                    jobs.append((sj, 'clang', c15_defs(c, opts), True, label, rseed, T['steps'], fam['profile']))
            # config options and build axes on the all-on configuration
            allon = (tuple(1 for _ in FEATURES), 0)
            for extra_cfg, lab in (({'subst': 7}, 'subst7'), ({'taskcap': 40}, 'taskcap+'),):
                if lab == 'subst7' and fam.get('no_subst'): continue      # substituting guards: behaviour legitimately depends on the limit
                sj2 = dict(sj); sj2['cfg'] = dict(sj['cfg'], **extra_cfg)
                jobs.append((sj2, 'clang', c15_defs(allon, {}), True, 'allon|' + lab, rseed, T['steps'], fam['profile']))
            nodbg = (tuple(0 if f == 'DEBUG_STATE_TYPE' else 1 for f in FEATURES), 0)
            jobs.append((sj, 'clang', c15_defs(nodbg, {'notypeindex': 1}), True, 'allon|notypeindex', rseed, T['steps'], fam['profile']))
            jobs.append((sj, 'clang', c15_defs(allon, {}), False, 'allon|hook-off', rseed, T['steps'], fam['profile']))
            jobs.append((sj, 'clang-dev', c15_defs(allon, {}), True, 'allon|development-headers', rseed, T['steps'], fam['profile']))
            jobs.append((sj, 'gcc', c15_defs(allon, {}), True, 'allon|gcc', rseed, T['steps'], fam['profile']))
            jobs.append((sj, 'gcc17', c15_defs(allon, {}), True, 'allon|gcc-c++17', rseed, T['steps'], fam['profile']))
            meta[sj['name']] = (fam['name'], sj)
    with cf.ProcessPoolExecutor(max_workers=vlib.JOBS) as ex:
        res = list(ex.map(c15_job, jobs, chunksize=2))
    by = {}
    for r in res: by.setdefault(r['shape'], []).append(r)
    evals = 0; distinct = set(); nocompile = {}; samples = []; compared = 0; capped = 0
    for name, rs in by.items():
        ok = [r for r in rs if 'trace' in r]
        for r in rs:
            if 'nocompile' in r: nocompile.setdefault(r['label'].split('|')[0] + '|' + r['label'].split('|')[1] if r['label'][0] in '01' else r['label'], 0); nocompile[list(nocompile)[-1]] += 1
            elif 'error' in r: V.harness_errors.append('%s %s: %s' % (name, r['label'], r['error']))
        if len(ok) < 2: V.harness_errors.append('%s: fewer than two configurations produced a trace' % name); continue
        # reference = majority trace
        groups = {}
        for r in ok: groups.setdefault(r['trace_hash'], []).append(r)
        ref = max(groups.values(), key=len)
        for h, g in groups.items():
            if g is ref: continue
            for r in g:
                a = open(ref[0]['trace_file']).read().split('\n'); b = open(r['trace_file']).read().split('\n'); i = 0
                while i < min(len(a), len(b)) and a[i] == b[i]: i += 1
                if r['label'].endswith('taskcap+'):
                    # more task capacity: comparable until an append is rejected for lack of capacity in either run (behaviour then depends on it)
                    lim = min(x for x in (ref[0].get('cap_at'), r.get('cap_at'), 10 ** 9) if x is not None)
                    if i >= lim: capped += 1; continue
                run = {'shape': name, 'desc': meta[name][1]['desc'], 'cfg': meta[name][1]['cfg'], 'flavour': r['flavour'], 'profile': 'c15', 'seed': seed, 'steps': T['steps'], 'args': r['args'], 'sj': meta[name][1], 'defs': r['defs']}
                V.add('trace|behaviour-differs-between-configurations|' + c15_class(r['label']), 1, {'configuration': r['label'], 'reference': ref[0]['label'], 'event': i, 'reference-events': a[i:i + 3], 'this-configuration': b[i:i + 3]}, run)
        evals += sum(r['trace_len'] for r in ok); compared += len(ok)
        for r in ok: distinct.add((name, r['label'], r['flavour']))
        if len(samples) < 3: samples.append({'shape': name, 'desc': meta[name][1]['desc'][:160], 'family': meta[name][0], 'configurations-compared': len(ok), 'trace-events': ref[0]['trace_len'], 'example-configurations': [r['label'] for r in ok[:6]]})
    for r in res:
        try: os.unlink(r['trace_file'])
        except Exception: pass
    cov = {'evaluations': evals, 'distinct_nontrivial': len(distinct), 'samples': samples,
           'rule': 'evaluations = normalised trace events (callbacks, requests, guard views, quiescent configurations) compared across builds of the same generated program; distinct_nontrivial = distinct (program, configuration, build flavour) members of the comparison. Configuration label = bits for ' + '/'.join(FEATURES) + ' | logging mode | payload',
           'configurations_compared': compared, 'task_capacity_variants_compared_up_to_the_first_rejected_append': capped, 'configurations_that_do_not_compile': nocompile, 'programs': len(by),
           'note': 'combinations that do not compile (SERIALIZATION + STRUCTURE_REPORT without TRANSITION_HISTORY) are outside the property\'s quantifier and are listed, not judged'}
    return V.finish(cov, ['programs are restricted to the feature subset common to all members of a family (core: composite/resumable/selectable/orthogonal regions, requests, guards, update/react/query/reset/enter/exit; utility family: utility theory on in all members)', 'guards cancel but do not substitute, so the substitution limit is never reached and SubstitutionLimitN<4> / <7> are comparable', 'traces are compared after dropping what only exists under a feature (history, payload ids, logger records, structure report)'])

def c15_class(label):
    p = label.split('|')
    if p[0] == 'allon': return p[1]
    return 'feature-switches'

# ---------------------------------------------------------------------------------------------
# C17: identifiers and structural metadata (light programs, no driver)

def id_job(job):
    sj, flavour = job
    import idtu
    hdr = '<hfsm2/machine_dev.hpp>' if vlib.FLAVOURS[flavour][2] == 'dev' else '<hfsm2/machine.hpp>'
    binp, out = vlib.build_one(idtu.emit(sj, hdr), flavour, name=sj['name'])
    if not binp: return (sj, flavour, None, 'build failed: ' + out[:1500])
    rc, so, se = vlib.run_bin(binp, [], timeout=60)
    if rc != 0: return (sj, flavour, None, 'exit %d %s' % (rc, se[-500:]))
    try: return (sj, flavour, json.loads(so), '')
    except Exception as ex: return (sj, flavour, None, 'bad output %r' % so[:200])

def id_engine(prop, tier, seed):
    import idtu
    V = vlib.Verdict(prop, tier, seed)
    vlib.prune_cache()
    big = tier == 'thorough'
    shapeset = idtu.id_shapes(seed, 60 if big else 14, big)
    shapeset += [s for s in shp.shape_set(seed, 20 if big else 6, cfg_variants=False)]
    flavours = ['id-clang', 'id-gcc'] + (['id-clang-dev', 'id-gcc17'] if big or vlib.join_differs() else [])
    res = vlib.pmap(id_job, [(sj, fl) for sj in shapeset for fl in flavours])
    values = 0; distinct = set(); samples = []
    for sj, fl, d, err in res:
        run = {'shape': sj['name'], 'desc': sj['desc'], 'flavour': fl, 'sj': sj, 'args': [], 'cfg': sj['cfg']}
        if d is None:
            # a legal shape within the documented limits that does not compile cannot be observed: inconclusive, reported
            V.harness_errors.append('%s %s: %s' % (sj['name'], fl, err[:600].replace('\n', ' | '))); continue
        nodes = sj['nodes']; exp = sj['expect']
        def bad(key, detail): V.add(key, 1, detail, run)
        for k in ('STATE_COUNT', 'REGION_COUNT', 'COMPO_COUNT', 'ORTHO_COUNT', 'ORTHO_UNITS', 'SERIAL_BITS', 'SERIAL_BYTES'):
            values += 1
            if d[k] != exp[k]: bad('count|%s-differs-from-the-declaration' % k, {'observed': d[k], 'expected': exp[k], 'shape': sj['desc'][:200]})
        values += 1
        if d['TASK_CAPACITY'] != 2 * exp['COMPO_PRONGS']: bad('count|default-TASK_CAPACITY-differs', {'observed': d['TASK_CAPACITY'], 'expected': 2 * exp['COMPO_PRONGS']})
        for k, (a, b) in d['sid'].items():
            values += 2
            if a != int(k): bad('id|stateId-differs-from-depth-first-numbering', {'state': int(k), 'observed': a, 'shape': sj['desc'][:200]}); break
            if b != a: bad('id|peer-with-same-structure-disagrees', {'state': int(k), 'observed': [a, b]}); break
        for k, (a, b) in d['rid'].items():
            values += 2
            if a != int(k): bad('id|regionId-differs-from-depth-first-numbering', {'region': int(k), 'observed': a, 'shape': sj['desc'][:200]}); break
            if b != a: bad('id|peer-with-same-structure-disagrees', {'region': int(k), 'observed': [a, b]}); break
        # the same lookups through the instance type (the payload flavour of the root has its own forwarders)
        for k, (a, b) in d.get('isid', {}).items():
            values += 2
            if a != int(k) or b != int(k): bad('id|instance-level-stateId-differs', {'state': int(k), 'observed': [a, b]}); break
        for k, (a, b) in d.get('irid', {}).items():
            values += 2
            if a != int(k) or b != int(k): bad('id|instance-level-regionId-differs', {'region': int(k), 'observed (void payload, int payload)': [a, b], 'shape': sj['desc'][:200]}); break
        for i, v in enumerate(d['seen']):
            if v: 
                values += 1
                if v != i + 1: bad('id|control.stateId()-in-callback-differs', {'state': i, 'observed': v - 1}); break
        if len(d['names']) != len(nodes): bad('structure|entry-count-differs', {'observed': len(d['names']), 'expected': len(nodes)})
        else:
            for i, nm in enumerate(d['names']):
                n = nodes[i]
                if not (n['kind'] != 'L' and n['headless']):
                    values += 1
                    if nm != '%dN%d' % (len('N%d' % i), i): bad('structure|order-differs-from-identifier-order', {'index': i, 'name': nm}); break
        values += d.get('probes', 0)
        if d.get('probe_fail'): bad('structure|state-not-reachable-by-its-identifier', {'failed-probes': d['probe_fail'], 'probes': d['probes'], 'shape': sj['desc'][:200]})
        if d.get('asserts'): V.add_other('C11', 'assert|during-construction', d['asserts'])
        distinct.add(sj['desc'])
        if len(samples) < 3: samples.append({'shape': sj['name'], 'desc': sj['desc'][:300], 'flavour': fl, 'published': {k: d[k] for k in ('STATE_COUNT', 'REGION_COUNT', 'COMPO_COUNT', 'ORTHO_COUNT', 'ORTHO_UNITS', 'TASK_CAPACITY', 'SERIAL_BITS', 'SERIAL_BYTES')}, 'expected': exp})
    cov = {'evaluations': values, 'distinct_nontrivial': len(distinct), 'rule': 'evaluations = published identifiers / counts compared with the values an independent Python computation derives from the declaration; distinct_nontrivial = distinct machine structures (each a separately compiled program, with a separately written peer of the same structure)',
           'samples': samples, 'shapes': len(shapeset), 'flavours': flavours, 'max_states': max(len(s['nodes']) for s in shapeset), 'max_regions': max(len(s['regions']) for s in shapeset)}
    return V.finish(cov, ['structures are sampled (curated wide / deep / orthogonal-width-around-8 shapes plus seeded random ones), not enumerated', 'a shape that fails to compile is reported as a harness error (exit 2), since nothing can be observed'])

def main():
    ap = argparse.ArgumentParser()
    ap.add_argument('prop', nargs='?')
    ap.add_argument('--tier', default=os.environ.get('VERIF_TIER', 'quick'))
    ap.add_argument('--seed', type=int, default=int(os.environ.get('VERIF_SEED', '0')))
    ap.add_argument('--replay')
    ap.add_argument('--keep-logs', action='store_true')
    a = ap.parse_args()
    if a.replay:
        import replay
        return replay.main(a.replay)
    if a.tier not in TIERS: a.tier = 'quick'
    if a.prop in SHAPE_PROPS:
        return shape_engine(a.prop, a.tier, a.seed, a.keep_logs)
    if a.prop == 'C17':
        return id_engine(a.prop, a.tier, a.seed)
    if a.prop == 'C10':
        return c10_engine(a.prop, a.tier, a.seed, a.keep_logs)
    if a.prop == 'C15':
        return c15_engine(a.prop, a.tier, a.seed)
    import units
    if a.prop in units.PROPS:
        return units.run(a.prop, a.tier, a.seed)
    print('unknown property', a.prop); return 2

if __name__ == '__main__':
    sys.exit(main())
