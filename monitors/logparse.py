#!/usr/bin/env python3
"""Parser of the harness event log (see harness/vh*.hpp for the grammar)."""

OPS = ['CONSTRUCT', 'UPDATE', 'REACT', 'QUERY', 'IMMEDIATE', 'RESET', 'EXIT', 'ENTER', 'DESTROY', 'SAVE', 'LOAD', 'REPLAY', 'REPLAY_ENTER', 'PLANEDIT', 'EXTSTATUS', 'COPY', 'REACT2', 'OVERLONG']
OP = {n: i for i, n in enumerate(OPS)}
METH = {1: 'select', 2: 'rank', 3: 'utility', 4: 'entryGuard', 5: 'enter', 6: 'reenter', 7: 'preUpdate', 8: 'update', 9: 'postUpdate',
        10: 'preReact', 11: 'react', 12: 'query', 13: 'postReact', 14: 'exitGuard', 15: 'exit', 16: 'planSucceeded', 17: 'planFailed'}

class Op:
    __slots__ = ('inst', 'step', 'op', 'a', 'b', 'lines', 'live', 'act', 'res', 'sub', 'pe', 'px', 'pc', 'prev', 'tgt', 'draws', 'viol', 'asserts', 'lineno')
    def __init__(self):
        self.lines = []; self.prev = None; self.tgt = None; self.draws = 0; self.viol = []; self.asserts = []
        self.act = None; self.live = None

class Stream:
    """one pass over a log without holding it in memory: .header is known at once, .ops() yields operations as they complete,
    .trailer and .stray are final once ops() is exhausted"""
    def __init__(self, path_or_lines):
        self.it = open(path_or_lines) if isinstance(path_or_lines, str) else iter(path_or_lines)
        self.header = None; self.trailer = None; self.stray = []; self.lineno = 0; self.pending = None
        # the header is the first line
        for line in self.it:
            self.lineno += 1
            if not line or line[0] == '\n': continue
            if line[0] == 'H' and line[-1] == '\n': self.header = line.split()[1:]
            else: self.pending = line
            break
    def ops(self):
        cur = None
        def lines():
            if self.pending is not None:
                l = self.pending; self.pending = None; yield l
            for l in self.it:
                self.lineno += 1; yield l
        for line in lines():
            lineno = self.lineno
            if not line or line[0] == '\n': continue
            t = line[0]
            if line[-1] != '\n': self.stray.append(['truncated-line', lineno]); continue
            parts = line.split()
            if t == 'O':
                if cur is not None: yield cur
                cur = Op(); cur.lineno = lineno
                cur.inst, cur.step, cur.op, cur.a, cur.b = int(parts[1]), int(parts[2]), int(parts[3]), int(parts[4]), int(parts[5])
            elif t == 'E':
                if cur is not None: yield cur
                cur = None
            elif t == 'H':
                self.header = parts[1:]
            elif t == 'Z':
                self.trailer = [int(x) for x in parts[1:]]
            elif t == 'V':
                (cur.viol if cur is not None else self.stray).append(parts[1:])
            elif t == 'B':
                (cur.asserts if cur is not None else self.stray).append(('assert', parts[1], int(parts[2])))
            elif cur is None:
                self.stray.append(['unparsed'] + parts)
            elif t == 'S':
                cur.live = parts[1] == '1'; cur.act, cur.res, cur.sub, cur.pe, cur.px, cur.pc = parts[2:8]
            elif t == 'P':
                v = [int(x) for x in parts[2:]]
                cur.prev = [tuple(v[i:i + 4]) for i in range(0, len(v), 4)]   # (id, kind, dest, origin)
            elif t == 'T':
                v = [int(x) for x in parts[1:]]
                cur.tgt = {v[i]: (v[i + 1], v[i + 2]) for i in range(0, len(v), 3)}  # state -> (index in prev, id)
            elif t == 'D':
                cur.draws = int(parts[1])
            elif t == 'N':
                cur.lines.append((t, parts[1:]))
            elif t == 'p' or t == 'b':
                cur.lines.append((t, parts[1:]))
            else:
                cur.lines.append((t, [int(x) for x in parts[1:]]))
        if cur is not None: yield cur      # cut short: the process died inside this operation
        try: self.it.close()
        except Exception: pass

def parse(path_or_lines):
    """returns (header, ops, trailer, stray_violations), everything in memory (small logs, tools)"""
    st = Stream(path_or_lines); ops = list(st.ops())
    return st.header, ops, st.trailer, st.stray
