#!/usr/bin/env python3
"""Plan monitors: shadow task lists (C07) and the plan status / task execution interpreter (C06, rule R5)."""
import collections

NONE, SUCC, FAIL = 0, 1, 2
KIND_NAMES = ['change', 'restart', 'resume', 'select', 'utilize', 'randomize', 'schedule']

class PlanTracker:
    def __init__(self, shape, capacity):
        self.nodes = shape['nodes']; self.regions = shape['regions']
        self.ridx = {r: i for i, r in enumerate(self.regions)}
        self.cap = capacity
        self.named = [not (x['kind'] != 'L' and x['headless']) for x in self.nodes]
        self.reset_all()
    def reset_all(self):
        self.plans = {i: [] for i in range(len(self.regions))}
        self.exists = set(); self.marks_s = set(); self.marks_f = set()
    def total(self): return sum(len(p) for p in self.plans.values())
    def region_of_state(self, s):
        n = self.nodes[s]
        return n['region'] if n['kind'] != 'L' else self.nodes[n['parent']]['region']
    def in_region(self, r, s):
        head = self.regions[r]; return head <= s < head + self.nodes[head]['size']

    # ------------------------------------------------------------------ C07: edits
    def edit(self, tag, a, viol):
        if tag == 'A':
            region, origin, dest, kind, tid, ok, src = a
            should = self.total() < self.cap
            if bool(ok) != should and not getattr(self, 'uncertain', False):
                viol('C07', 'append|returned-%s-%s-capacity' % ('true' if ok else 'false', 'at' if not should else 'below'), {'region': region, 'stored': self.total(), 'capacity': self.cap})
            if ok:
                self.plans[region].append((origin, dest, kind, tid)); self.exists.add(region)
            return 'append-ok' if ok else 'append-full'
        if tag == 'X':
            region, idx, tid, src = a
            lst = self.plans[region]
            pos = [i for i, t in enumerate(lst) if t[3] == tid]
            if tid == -1 and 0 <= idx < len(lst) and lst[idx][3] == -1: pos = [idx]      # tasks without payload are told apart by position
            if idx == -1 and tid == -1: pos = [i for i, t in enumerate(lst) if t[3] == -1][-1:]   # yielded after appends during iteration: position unknown
            if not pos: viol('C07', 'remove|iteration-yielded-a-task-the-region-does-not-hold', {'region': region, 'id': tid, 'shadow': [t[3] for t in lst]})
            else: lst.pop(pos[0])
            return 'remove'
        if tag == 'K':
            self.plans[a[0]] = []
            head = self.regions[a[0]]
            for s in range(head, head + self.nodes[head]['size']): self.marks_s.discard(s); self.marks_f.discard(s)
            return 'clear'
    def compare(self, dumps, cdumps, viol, hdumps=None):
        """dumps: {region: (n, [(origin,dest,kind,id)...])} from Plan iteration; cdumps from CPlan iteration"""
        seen = {}
        for r in range(len(self.regions)):
            for which, d in (('Plan', dumps), ('CPlan', cdumps), ('const-Plan', hdumps or {})):
                if r not in d: continue
                n, tasks = d[r]
                exp = self.plans[r]
                if n > self.cap: viol('C07', 'iterate|cycle-or-overlong-list', {'region': r, 'via': which, 'steps': n}); continue
                if list(tasks) != [tuple(t) for t in exp]:
                    what = 'order' if sorted(tasks) == sorted(exp) else ('length' if len(tasks) != len(exp) else 'content')
                    viol('C07', 'iterate|%s-differs-from-tasks-appended|%s' % (what, which), {'region': r, 'expected': exp[:8], 'observed': list(tasks)[:8]})
            if r in dumps:
                for t in dumps[r][1]:
                    if t[3] != -1 and t[3] in seen and seen[t[3]] != r: viol('C07', 'iterate|task-in-two-regions', {'id': t[3], 'regions': [seen[t[3]], r]})
                    seen[t[3]] = r
    def restore(self, dumps):
        self.uncertain = False
        for r, (n, tasks) in dumps.items(): self.plans[r] = [tuple(t) for t in tasks][:self.cap]

    # ------------------------------------------------------------------ C06: status interpreter
    def evaluate(self, sub, phases, calls, outer, plan_cbs, react_bottomup=False):
        """sub: activeSubState string before the call; phases: method codes of the three passes;
        calls: {(state, meth): [SUCC/FAIL...]}, outer: set of (state, meth) that requested a transition out of their region;
        plan_cbs: observed [(kind 0/1, head, propagated)] in order.  Returns (executed tasks [(region, task)], notifications [(head, 'PS'/'PF')])"""
        nodes = self.nodes; ridx = self.ridx
        headSt = collections.defaultdict(lambda: (NONE, False)); subSt = collections.defaultdict(lambda: (NONE, False))
        def comb(a, b): return (max(a[0], b[0]), a[1] or b[1])
        def own(n, meth):
            res = NONE
            for v in calls.get((n, meth), []):
                res = v; (self.marks_s if v == SUCC else self.marks_f).add(n)
            return (res, (n, meth) in outer)
        def kids(n):
            if nodes[n]['kind'] == 'C':
                c = sub[n]
                i = ord(c) - 48 if c not in '-.' else -1
                return [nodes[n]['children'][i]] if 0 <= i < len(nodes[n]['children']) else []
            return nodes[n]['children']
        def visit(n, meth, post):
            if nodes[n]['kind'] == 'L': return own(n, meth)
            r = ridx[n]
            def head():
                h = own(n, meth) if self.named[n] else (NONE, False)
                headSt[r] = comb(headSt[r], h); return h
            def subs():
                s = (NONE, False)
                for c in kids(n): s = comb(s, visit(c, meth, post))
                subSt[r] = comb(subSt[r], s)
            if post: subs(); h = head()
            else: h = head(); subs()
            return h
        for i, meth in enumerate(phases): visit(0, meth, i == 2)
        executed = []; notes = []
        cbq = list(plan_cbs)
        def mark(n):
            if n in self.marks_f: return (FAIL, False)
            if n in self.marks_s: return (SUCC, False)
            return (NONE, False)
        def is_active(s):
            while nodes[s]['parent'] >= 0:
                par = nodes[s]['parent']
                if nodes[par]['kind'] == 'C' and (sub[par] in '-.' or ord(sub[par]) - 48 != nodes[s]['prong']): return False
                s = par
            return True
        def ev(n):
            if nodes[n]['kind'] == 'L': return mark(n)
            r = ridx[n]
            h = comb(headSt[r], mark(n))
            s = (NONE, False)
            for c in kids(n): s = comb(s, ev(c))
            s = comb(subSt[r], s)
            if h[0] != NONE or h[1]: return h
            if s[1]: return (NONE, True)
            if s[0] == NONE or r not in self.exists: return s
            if s[0] == FAIL:
                notes.append((n, 'PF'))
                if self.named[n]:
                    prop = None
                    for i, cb in enumerate(cbq):
                        if cb[0] == 1 and cb[1] == n: prop = cb[2]; cbq.pop(i); break
                    if prop: self.marks_f.add(n)
                return (FAIL, False)
            if self.plans[r]:
                toclear = set()
                for t in list(self.plans[r]):
                    if not is_active(t[0]): break
                    if t[0] in self.marks_s:
                        executed.append((r, t))
                        if t[0] == t[1]: self.marks_s.discard(t[0])
                        else: toclear.add(t[0])
                        self.plans[r].remove(t)
                self.marks_s -= toclear
                return (NONE, False)
            notes.append((n, 'PS'))
            if self.named[n]:
                prop = None
                for i, cb in enumerate(cbq):
                    if cb[0] == 0 and cb[1] == n: prop = cb[2]; cbq.pop(i); break
                if prop: self.marks_s.add(n)
            return (SUCC, False)
        ev(0)
        self.marks_s = set(); self.marks_f = set()
        return executed, notes
