#!/usr/bin/env python3
"""Offline monitors over one harness log: trace automata + reference interpreter (history + executable model).

usage: check_log.py <shape.json> <log> [key=value ...]      prints one JSON summary on stdout
"""
import sys, json, collections, math, copy
from fractions import Fraction
from logparse import parse, OP, OPS, METH
import hmodel
from hmodel import Model, KIND_NAMES, SCHEDULE
from plans import PlanTracker, SUCC, FAIL

LIFE = (5, 6, 15)
ENTER, REENTER, EXIT = 5, 6, 15

class Checker:
    def __init__(self, shape, seed, knobs, subst, manual, deviations=()):
        self.shape = shape; self.nodes = shape['nodes']; self.n = len(self.nodes)
        self.manual = manual; self.limit = subst; self.seed = seed; self.knobs = knobs
        self.named = [not (x['kind'] != 'L' and x['headless']) for x in self.nodes]
        self.viol = collections.OrderedDict()     # key -> {'property', 'count', 'first'}
        self.stats = collections.Counter()
        self.configs = set(); self.nontrivial = collections.defaultdict(set)
        self.samples = []
        self.deviations = deviations
        self.bottomup = bool(shape['cfg'].get('bottomup')); self.pconsume = knobs.get('pConsume', 0); self.inj = set(shape.get('inj', []))
        self.inst = {}
        self.mirror_on = bool(knobs.get('mirror', 0)); self.verbose_log = bool(knobs.get('verboseLog', 0)); self.names = None
        mcode = {'preUpdate': 7, 'update': 8, 'postUpdate': 9, 'preReact': 10, 'react': 11, 'postReact': 13, 'query': 12}
        self.masked = set((mcode[m], int(k)) for k, v in shape.get('mask', {}).items() for m in v)
        self.lockstep_only = bool(shape['cfg'].get('builtin_rng'))   # built-in generator: random outcomes are not predictable, only differential checks apply
        self.idmask = 0xff if shape['cfg'].get('payload') == 'tiny' else None
        self.taskcap = knobs.get('taskcap', 0); self.plans_on = bool(knobs.get('plans', 0))
        self.auth_notes = set(); self.auth_single_round = True; self.ylist = []; self.vflag = None; self.bytes = None
        self.hist_cap = sum(1 for x in self.nodes if x['kind'] == 'C') * subst      # TransitionSets: COMPO_COUNT * SUBSTITUTION_LIMIT
    # ------------------------------------------------------------------
    def v(self, prop, key, op, detail=None):
        full = prop + '.' + key
        e = self.viol.get(full)
        if e is None:
            e = self.viol[full] = {'property': prop, 'count': 0, 'first': {'inst': op.inst if op else None, 'step': op.step if op else None, 'op': OPS[op.op] if op else None, 'line': op.lineno if op else None, 'detail': detail}}
        e['count'] += 1
    def named_parent(self, s):
        p = self.nodes[s]['parent']
        while p >= 0 and not self.named[p]: p = self.nodes[p]['parent']
        return p
    def state(self, inst):
        st = self.inst.get(inst)
        if st is None:
            st = self.inst[inst] = {'model': Model(self.shape, self.seed, self.knobs, self.deviations, self.limit), 'entered': set(), 'prev_op': None, 'constructed': False, 'plan': PlanTracker(self.shape, self.taskcap)}
        return st

    # ------------------------------------------------------------------ C01 (independent of the in-process check)
    def wf(self, op):
        nodes = self.nodes; act = op.act; sub = op.sub; bad = []
        if (act[0] == '1') != op.live: bad.append('root-vs-activated')
        for s in range(1, self.n):
            if act[s] == '1' and act[nodes[s]['parent']] != '1': bad.append('active-under-inactive-parent'); break
        for x in nodes:
            if x['kind'] == 'L': continue
            s = x['id']; kids = x['children']; cnt = sum(1 for c in kids if act[c] == '1')
            if x['kind'] == 'C':
                if act[s] == '1':
                    if cnt != 1: bad.append('composite-with-%s-active-substates' % ('no' if cnt == 0 else 'several'))
                    elif sub[s] == '-' or kids[ord(sub[s]) - 48] != [c for c in kids if act[c] == '1'][0]: bad.append('activeSubState-wrong')
                else:
                    if cnt: bad.append('active-under-inactive-parent')
                    if sub[s] != '-': bad.append('activeSubState-valid-for-inactive-region')
            else:
                if act[s] == '1' and cnt != len(kids): bad.append('orthogonal-with-inactive-substate')
        for b in sorted(set(bad)): self.v('C01', 'wf|' + b, op, {'act': act, 'sub': sub})
        # the same answers are what C13 calls mutually consistent queries (isActive of a state, of its parent, activeSubState of its region)
        for b in sorted(set(bad)):
            if b != 'root-vs-activated': self.v('C13', 'consistency|' + b, op, {'act': act, 'sub': sub})
        self.stats['C01.snapshots'] += 1

    # ------------------------------------------------------------------
    def run(self, ops):
        # ops may be a generator (logs are streamed): one operation of look-ahead tells which one is the last
        it = iter(ops); nxt = next(it, None)
        while nxt is not None:
            op = nxt; nxt = next(it, None); last = op if nxt is None else None
            self.stats['ops'] += 1
            self.stats['op.' + OPS[op.op]] += 1
            for vv in op.viol:
                prop = vv[0].split('.')[0]
                self.v(prop, 'inproc|' + vv[0].split('.', 1)[1], op, vv[1:])
            for a in op.asserts:
                self.v('C11', 'assert|' + assert_key(a[1], a[2]), op, {'file': a[1], 'line': a[2]})
            if self.mirror_on: self.mirror(op)
            if op.op == OP['DESTROY']:
                self.on_destroy(op); continue
            if op.act is None:
                # the last operation of a log may be cut short when the process died (sanitizer report, crash): judged through the exit status
                if op is not last: self.v('C00', 'harness|op-without-snapshot', op)
                continue
            if op.op == OP['COPY']:
                self.on_copy(op); continue
            self.lockstep(op)
            if self.lockstep_only:
                self.wf(op); self.state(op.inst)['prev_op'] = op; continue
            self.wf(op)
            try: self.step(op)
            except Exception as ex:
                import traceback
                self.v('C00', 'harness|monitor-exception', op, traceback.format_exc()[-600:])
                try: self.state(op.inst)['model'].resync(op.act, op.res); self.state(op.inst)['prev_op'] = op
                except Exception: pass
    # ------------------------------------------------------------------
    def split(self, op):
        pre = []; guards = []; cbs = []; enters = []; plines = []; llines = []; self.pl = []; self.rl = []; self.dumps = {}; self.cdumps = {}; self.hdumps = {}; lastq = None; self.cj = []; self.klines = []; self.ylist = []; self.vflag = None; self.bytes = None
        for t, a in op.lines:
            if t == 'c': cbs.append((a[0], a[1])); self.cj.append(('c', a[0], a[1]))
            elif t == 'j' or t == 'i': self.cj.append((t, a[0], a[1]))
            elif t == 'k': self.klines.append((a[0], a[1]))
            elif t in ('A', 'X', 'K', 's', 'n', 'w'):
                phase = 1 if (guards or any(me in LIFE for me, _ in cbs)) else 0
                self.pl.append((t, a, cbs[-1] if cbs else None, phase))
            elif t == 'r': self.rl.append(tuple(a))
            elif t == 'J' or t == 'C' or t == 'I':
                v = a[2:]; (self.dumps if t == 'J' else self.cdumps if t == 'C' else self.hdumps)[a[0]] = (a[1], [tuple(v[i:i + 4]) for i in range(0, len(v), 4)])
            elif t == 't':
                if lastq is not None and (lastq[0], lastq[1], lastq[3]) == (a[0], a[1], a[2]): lastq = None
                elif not guards: pre.append(('T', a[0], a[1], a[2])); self.pl.append(('t', a, None, 0))
            elif t == 'q':
                lastq = a
                if self.idmask is not None: a = [a[0], a[1], a[2] & self.idmask, a[3]] + list(a[4:])
                if len(a) > 4 and a[4]: a = [a[0], a[1], -1, a[3]]; self.stats['C14.requests-without-payload'] += 1
                if cbs and not guards and a[3] >= 0: self.pl.append(('q', a, cbs[-1], 0))
                req = (a[0], a[1], a[2], a[3])
                if guards: guards[-1]['issue'].append(req)
                else: pre.append(req)
            elif t == 'g':
                n = a[3]; full = [tuple(a[4 + 4 * i: 8 + 4 * i]) for i in range(n)]
                guards.append({'which': a[0], 'state': a[1], 'cancel': bool(a[2]), 'pend': [f[0] for f in full], 'full': full, 'cur': a[4 + 4 * n], 'issue': [], 'pos': len(cbs)})
            elif t == 'e': enters.append((a[0], a[2:]))
            elif t == 'p': plines.append((len(guards), a))
            elif t == 'l': llines.append((a[0], a[1]))
            elif t == 'y': self.ylist = [tuple(a[i:i + 4]) for i in range(0, len(a), 4)]
            elif t == 'v': self.vflag = a[0]
            elif t == 'b': self.bytes = a
        return pre, guards, cbs, enters, plines, llines

    def on_destroy(self, op):
        if op.inst == 0: self.last0 = None
        st = self.state(op.inst)
        cbs = [(a[0], a[1]) for t, a in op.lines if t == 'c']
        self.cj = [(t, a[0], a[1]) for t, a in op.lines if t in ('c', 'j', 'i')]
        self.life(op, st, cbs, None)
        if st['entered']: self.v('C03', 'life|states-still-entered-after-destruction', op, sorted(st['entered']))
        st.pop('hist', None)
        st['entered'] = set(); st['entered-j'] = set(); st['entered-i'] = set(); st['model'] = Model(self.shape, self.seed, self.knobs, self.deviations, self.limit); st['prev_op'] = None

    # ------------------------------------------------------------------ C10: copies
    def sig(self, op):
        return (op.op, tuple((t, tuple(a)) for t, a in op.lines if t not in ('B',)), op.live, op.act, op.res, op.sub, tuple(op.prev or ()), tuple(sorted((op.tgt or {}).items())), op.draws)
    def on_copy(self, op):
        src = self.inst.get(0)
        self.stats['C10.copies'] += 1
        if any(t == 'c' for t, a in op.lines): self.v('C10', 'copy|copy-construction-invoked-callbacks', op)
        if src is None or src['prev_op'] is None: return
        po = src['prev_op']
        if (op.live, op.act, op.res, op.sub) != (po.live, po.act, po.res, po.sub): self.v('C10', 'copy|copy-differs-from-original-right-after-copying', op, {'original': [po.act, po.res], 'copy': [op.act, op.res]})
        st = {'model': copy.deepcopy(src['model']), 'entered': set(src['entered']), 'entered-j': set(src.get('entered-j', ())), 'entered-i': set(src.get('entered-i', ())), 'prev_op': op, 'constructed': True, 'plan': copy.deepcopy(src['plan'])}
        if 'hist' in src: st['hist'] = list(src['hist'])
        self.inst[op.inst] = st
        self.wf(op)
    def lockstep(self, op):
        if op.inst == 0: self.last0 = op; return
        if op.inst != 3: return
        o = getattr(self, 'last0', None)
        if o is None or o.step != op.step or o.op != op.op: return
        self.last0 = None
        self.stats['C10.lockstep-operations'] += 1
        a, b = self.sig(o), self.sig(op)
        if a != b:
            i = 0; la = list(a[1]); lb = list(b[1])
            while i < min(len(la), len(lb)) and la[i] == lb[i]: i += 1
            self.v('C10', 'copy|copy-does-not-continue-as-the-original-would' + ('|built-in-generator-shared-with-original' if self.lockstep_only else ''), op, {'first-difference-at-event': i, 'original': la[i:i + 3], 'copy': lb[i:i + 3], 'snapshots': [o.act, op.act, o.res, op.res]})
        else: self.nontrivial['C10'].add((op.act, op.res, op.op))

    # ------------------------------------------------------------------ C03
    def life(self, op, st, cbs, act_after):
        entered = st['entered']; nodes = self.nodes
        for meth, s in cbs:
            self.stats['C03.callbacks'] += 1
            if meth == ENTER:
                if s in entered: self.v('C03', 'life|enter-while-entered', op, s)
                p = self.named_parent(s)
                if p >= 0 and p not in entered: self.v('C03', 'life|enter-before-parent', op, s)
                entered.add(s)
            elif meth == EXIT:
                if s not in entered: self.v('C03', 'life|exit-while-not-entered', op, s)
                kids = [c for c in entered if c != s and self.named_parent(c) == s]
                if kids: self.v('C03', 'life|exit-before-children', op, (s, kids))
                entered.discard(s)
            elif meth == 4:
                pass    # entry guards address states that are about to be entered
            else:
                if s not in entered: self.v('C03', 'life|%s-while-not-entered' % METH.get(meth, str(meth)), op, s)
        # the injected layers of a state are part of it: each layer's own stream alternates enter / exit and receives the rest only while entered
        for tag in ('j', 'i'):
            ent = st.setdefault('entered-' + tag, set())
            for t, meth, s in self.cj:
                if t != tag: continue
                if meth == ENTER:
                    if s in ent: self.v('C03', 'life|injected-layer-entered-while-entered', op, {'state': s, 'layer': 1 if tag == 'j' else 2})
                    ent.add(s)
                elif meth == EXIT:
                    if s not in ent: self.v('C03', 'life|injected-layer-exited-while-not-entered', op, {'state': s, 'layer': 1 if tag == 'j' else 2})
                    ent.discard(s)
                elif meth != 4 and s not in ent: self.v('C03', 'life|injected-layer-%s-while-not-entered' % METH.get(meth, str(meth)), op, {'state': s, 'layer': 1 if tag == 'j' else 2})
            if act_after is not None:
                wantl = set(i for i in range(self.n) if act_after[i] == '1' and i in self.inj and (tag == 'j' or i % 2 == 1))
                if wantl != ent:
                    self.v('C03', 'life|injected-layer-entered-set-differs-from-active-set', op, {'layer': 1 if tag == 'j' else 2, 'entered-not-active': sorted(ent - wantl), 'active-not-entered': sorted(wantl - ent)})
                    st['entered-' + tag] = set(wantl)
        if act_after is not None:
            want = set(i for i in range(self.n) if act_after[i] == '1' and self.named[i])
            if want != entered:
                self.v('C03', 'life|entered-set-differs-from-active-set', op, {'entered-not-active': sorted(entered - want), 'active-not-entered': sorted(want - entered)})
                st['entered'] = set(want)

    # ------------------------------------------------------------------
    def step(self, op):
        st = self.state(op.inst); m = st['model']; prev_op = st['prev_op']
        pre, guards, cbs, enters, plines, llines = self.split(op)
        m.set_step(op.step)
        kind = OPS[op.op]
        processed = False; rounds = []; queued_before = 0
        if self.plans_on: pre = self.plan_step(op, st, kind, pre, cbs, prev_op)
        else: pre = [q for q in pre if q[0] != 'T']
        before = (prev_op.act, prev_op.res) if prev_op is not None else None
        if kind == 'CONSTRUCT':
            if not self.manual: rounds = m.initial_enter(guards); processed = True
            elif guards or cbs: self.v('C03', 'life|callbacks-from-constructor-under-manual-activation', op)
        elif kind == 'ENTER':
            rounds = m.initial_enter(guards); processed = True
        elif kind in ('UPDATE', 'REACT', 'REACT2', 'IMMEDIATE'):
            queued_before = len(m.queue)
            for q in pre: m.enqueue(q)
            rounds = m.process(guards); processed = True
        elif kind == 'RESET':
            m.reset()
        elif kind == 'EXIT':
            m.final_exit()
        elif kind in ('QUERY', 'PLANEDIT', 'EXTSTATUS'):
            pass
        elif kind in ('REPLAY', 'REPLAY_ENTER', 'SAVE', 'LOAD', 'OVERLONG'):
            return self.step_special(op, st, kind, guards, cbs, before)
        else:
            self.v('C00', 'harness|unknown-op-' + kind, op); return
        if self.plans_on: self.plan_after(op, st, kind, m, cbs, prev_op)
        exp_act, exp_res, exp_sub = m.snapshot()
        if op.inst == 0:
            allq = pre + [q for g in guards for q in g['issue']]
            kindof = {q[2]: q[0] for q in allq}
            for q in getattr(self, 'carry', []): kindof[q[2]] = q[0]
            self.carry = list(m.queue)
            self.auth_vetoed_sched = any(r['vetoed'] and any(kindof.get(i) == SCHEDULE for i in r['ids']) for r in rounds) or 'remain-only-round' in m.notes and False
            self.auth_notes = set(m.notes); self.auth_single_round = len(rounds) <= 1 and not any(g['issue'] for g in guards) and not queued_before and not any(q[0] == SCHEDULE for q in allq)
        vetoes = sum(1 for r in rounds if r['vetoed']); approved = len(rounds) - vetoes
        notes = set(m.notes)
        # ---- C02 / C04: configuration
        cfg_ok = (exp_act == op.act and exp_res == op.res and exp_sub == op.sub)
        if not cfg_ok:
            what = ('active' if exp_act != op.act or exp_sub != op.sub else '') + ('+resumable' if exp_res != op.res else '')
            prop = 'C04' if vetoes else 'C02'
            if kind == 'RESET': key = 'reset|' + what
            elif kind in ('ENTER', 'CONSTRUCT'): key = 'activation|' + what
            elif kind == 'EXIT': key = 'exit|' + what
            else: key = ('config-after-veto|' if vetoes else 'config|') + what + '|' + self.situation(pre, guards, rounds, notes)
            self.v(prop, key, op, {'expected': [exp_act, exp_res, exp_sub], 'observed': [op.act, op.res, op.sub], 'requests': pre[:6], 'notes': sorted(notes)})
            m.resync(op.act, op.res)
        if kind == 'QUERY' and before and (op.act, op.res) != before: self.v('C05', 'query|changed-configuration', op)
        if processed and not pre and not queued_before and not guards and before and kind != 'ENTER' and kind != 'CONSTRUCT':
            if (op.act, op.res) != before:
                self.v('C02', 'config|changed-with-nothing-pending', op)
        # ---- C02: postconditions stated by the property, checked without the interpreter
        if processed and before and kind in ('UPDATE', 'REACT', 'REACT2', 'IMMEDIATE'): self.postcondition(op, m, pre, guards, rounds, before, prev_op, queued_before)
        # ---- C12: resolutions
        self.selection(op, m, cfg_ok)
        if 'random-walk-fell-off' in m.notes: self.stats['C12.random-walks-that-fell-off-the-end(rounding)'] += m.notes.count('random-walk-fell-off')
        # ---- C12: number of generator calls
        if m.ans.draws != op.draws:
            self.v('C12', 'draws|count-differs', op, {'expected': m.ans.draws, 'observed': op.draws})
        self.stats['C12.draws'] += op.draws
        # ---- lifecycle multiset (reenter == exit+enter is not judged)
        if cfg_ok:
            def norm(evs):
                c = collections.Counter()
                for k, s in evs:
                    if k == 'reenter': c[('exit', s)] += 1; c[('enter', s)] += 1
                    else: c[(k, s)] += 1
                return c
            obs = norm([({5: 'enter', 6: 'reenter', 15: 'exit'}[me], s) for me, s in cbs if me in LIFE])
            exp = norm(m.lc)
            if obs != exp:
                self.v('C04' if vetoes else 'C03', 'life|lifecycle-callbacks-differ-from-prescribed-set', op, {'missing': sorted((exp - obs).elements())[:8], 'unexpected': sorted((obs - exp).elements())[:8]})
        self.life(op, st, cbs, op.act)
        if kind == 'EXIT' and st['entered']:
            self.v('C03', 'life|states-still-entered-after-exit', op, sorted(st['entered'])); st['entered'] = set()
        # ---- C05 delivery order
        if kind in ('UPDATE', 'REACT', 'REACT2', 'QUERY') and before: self.order(op, kind, m, cbs, before, prev_op)
        self.injected(op)
        # ---- C04 trace checks
        if processed: self.guards_trace(op, kind, guards, cbs, rounds, notes, before, pre, queued_before)
        # ---- C09 history
        if op.prev is not None: self.history(op, kind, m, rounds, cbs, before)
        # ---- C13 queries
        self.last_guards = guards
        self.queries(op, kind, plines, rounds, cbs, before, m)
        # ---- C14 payloads
        self.payloads(op, kind, m, guards, enters, llines, prev_op, pre)
        # ---- coverage
        self.configs.add((op.act, op.res))
        if processed:
            self.stats['rounds.%d' % min(len(rounds), 9)] += 1
            if vetoes: self.stats['steps-with-veto'] += 1; self.nontrivial['C04'].add((op.act, op.res, len(rounds), vetoes))
            if len(rounds) > 1: self.stats['steps-multi-round'] += 1
            if 'leftover' in notes: self.stats['steps-leftover-queue'] += 1
            if 'queue-full-rejected' in notes: self.stats['steps-queue-full'] += 1
            if 'override-higher' in notes: self.stats['steps-override-higher'] += 1
            if 'remain-only-round' in notes: self.stats['steps-remain-only-round'] += 1
            for q in pre + [q for g in guards for q in g['issue']]:
                self.stats['req.' + KIND_NAMES[q[0]]] += 1
                self.cover_request(q, before)
            if before and (op.act, op.res) != before: self.nontrivial['C02'].add((before, tuple(q[:2] for q in pre), op.act, op.res))
        if len(self.samples) < 6 and processed and (len(rounds) > 1 or self.stats['ops'] < 4):
            self.samples.append({'step': op.step, 'op': kind, 'requests': [[KIND_NAMES[q[0]], q[1], q[2], q[3]] for q in pre], 'rounds': [{'ids': r['ids'], 'vetoed': r['vetoed']} for r in rounds], 'active': op.act, 'resumable': op.res, 'callbacks': [[METH.get(me, me), s] for me, s in cbs][:40]})
        st['prev_op'] = op

    # ------------------------------------------------------------------ replay / save / load
    def step_special(self, op, st, kind, guards, cbs, before):
        m = st['model']
        auth = self.inst.get(0, {}).get('prev_op')
        if kind in ('REPLAY', 'REPLAY_ENTER'):
            self.stats['C09.replays'] += 1
            if guards or any(me in (4, 14) for me, s in cbs): self.v('C09', 'replay|guards-consulted', op, [g['state'] for g in guards][:6])
            if not self.vflag: self.v('C09', 'replay|returned-false-for-a-recorded-history', op, self.ylist)
            if auth is not None and auth.act is not None:
                single = getattr(self, 'auth_rounds', None)
                draws = op.draws or auth.draws
                if op.act != auth.act or op.sub != auth.sub:
                    if draws: self.stats['C09.replay-diverged-with-random-draws(not judged)'] += 1
                    else: self.v('C09', 'replay|active-configuration-differs-from-authority' + ('|schedule-applied-in-vetoed-round' if getattr(self, 'auth_vetoed_sched', False) else ('|remain-only-round' if self.auth_notes and 'remain-only-round' in self.auth_notes else '')), op, {'authority': [auth.act, auth.sub], 'replica': [op.act, op.sub], 'history': self.ylist})
                elif op.res != auth.res:
                    if self.auth_single_round and not any(y[1] == SCHEDULE for y in self.ylist) and not draws and kind == 'REPLAY':
                        self.v('C09', 'replay|resumable-differs-after-single-round-step', op, {'authority': auth.res, 'replica': op.res, 'history': self.ylist})
                    else: self.stats['C09.replay-resumable-differs(multi-round/schedule: not judged)'] += 1
                else:
                    self.nontrivial['C09.replay'].add((auth.act, auth.res, tuple(y[1:3] for y in self.ylist)))
        elif kind == 'OVERLONG':
            # a history longer than the machine can hold: judged on memory safety (sanitizer), live assertions, well-formedness and lifecycle only
            self.stats['C11.over-long-replays'] += 1
            if guards or any(me in (4, 14) for me, s in cbs): self.v('C09', 'replay|guards-consulted', op, [g['state'] for g in guards][:6])
            if op.prev is not None and len(op.prev) > self.hist_cap: self.v('C11', 'history|holds-more-entries-than-its-capacity', op, len(op.prev))
        elif kind == 'SAVE':
            self.stats['C08.saves'] += 1
            if cbs: self.v('C08', 'save|callbacks-invoked', op, cbs[:4])
            if before and (op.act, op.res) != before: self.v('C08', 'save|changed-the-instance', op)
            self.last_save = (op.live, op.act, op.res, op.sub, self.bytes)
        elif kind == 'LOAD':
            self.stats['C08.loads'] += 1
            src = getattr(self, 'last_save', None)
            if guards: self.stats['C08.load-consulted-guards'] += 1
            if src is not None:
                if (op.live, op.act, op.sub) != (src[0], src[1], src[3]): self.v('C08', 'load|active-configuration-differs-from-saved', op, {'saved': src[1], 'loaded': op.act})
                elif op.res != src[2]: self.v('C08', 'load|resumable-differs-from-saved', op, {'saved': src[2], 'loaded': op.res})
                if before:
                    gone = set(i for i in range(self.n) if before[0][i] == '1' and src[1][i] != '1' and self.named[i])
                    come = set(i for i in range(self.n) if before[0][i] != '1' and src[1][i] == '1' and self.named[i])
                    ex = set(s for me, s in cbs if me == EXIT); en = set(s for me, s in cbs if me == ENTER)
                    if not gone <= ex: self.v('C08', 'load|exit-missing-for-state-that-stopped-being-active', op, sorted(gone - ex)[:6])
                    if not come <= en: self.v('C08', 'load|enter-missing-for-state-that-became-active', op, sorted(come - en)[:6])
                    self.nontrivial['C08'].add((before, src[1], src[2]))
        if self.plans_on and kind == 'LOAD': st['plan'].reset_all()
        if kind != 'SAVE':
            m.resync(op.act, op.res); m.prev = []
            if kind == 'LOAD': m.queue = []
        self.life(op, st, cbs, op.act)
        if op.live:
            for name, bits in (('enter', op.pe), ('exit', op.px), ('change', op.pc)):
                if '1' in bits: self.v('C13', 'pending|isPending%s-true-while-nothing-pending' % name.capitalize(), op, bits)
        self.configs.add((op.act, op.res))
        st['prev_op'] = op

    def cover_request(self, q, before):
        if not before: return
        k, d = q[0], q[1]; nodes = self.nodes
        act = before[0]
        rel = 'self' if act[d] == '1' and nodes[d]['kind'] == 'L' else ('active-region' if act[d] == '1' else 'inactive')
        par = nodes[d]['parent']
        while par >= 0 and nodes[par]['kind'] != 'C': par = nodes[par]['parent']
        strat = nodes[par]['strategy'] if par >= 0 else 'root'
        self.nontrivial['C02.matrix'].add((KIND_NAMES[k], rel, strat, 'O' if any(nodes[a]['kind'] == 'O' for a in self.ancestors(d)) else '-'))
    def ancestors(self, s):
        out = []; p = self.nodes[s]['parent']
        while p >= 0: out.append(p); p = self.nodes[p]['parent']
        return out
    def situation(self, pre, guards, rounds, notes):
        ks = sorted(set(KIND_NAMES[q[0]] for q in pre + [q for g in guards for q in g['issue']]))
        tag = []
        if len(rounds) > 1: tag.append('multi-round')
        for nkey in ('override-higher', 'remain-only-round', 'leftover', 'queue-full-rejected', 'random-walk-fell-off', 'enter-without-want', 'reenter-without-want', 'bad-prong', 'guards-missing', 'guards-unconsumed'):
            if nkey in notes: tag.append(nkey)
        return ','.join(ks) + ('|' + ','.join(tag) if tag else '')

    # ------------------------------------------------------------------ C06 / C07
    def plan_step(self, op, st, kind, pre, cbs, prev_op):
        pt = st['plan']; self.plan_unjudged = False
        def viol(prop, key, detail): self.v(prop, key, op, detail)
        # edits issued before the plans are evaluated
        for t, a, ctx, phase in self.pl:
            if phase == 0 and t in ('A', 'X', 'K'): self.stats['C07.' + pt.edit(t, a, viol)] += 1
            if t == 's' and a[2] == -1: (pt.marks_f if a[0] else pt.marks_s).add(a[1])
        executed = []; plans_before = {r: list(v) for r, v in pt.plans.items()}
        if kind in ('UPDATE', 'REACT', 'REACT2') and prev_op is not None and prev_op.act and prev_op.act[0] == '1':
            calls = collections.defaultdict(list); outer = set()
            for t, a, ctx, phase in self.pl:
                if t == 's' and a[2] != -1: calls[(a[1], a[2])].append(FAIL if a[0] else SUCC)
                elif t == 'q' and a[0] != SCHEDULE and ctx is not None and ctx[0] in (7, 8, 9, 10, 11, 13):
                    r = pt.region_of_state(a[3])
                    if not pt.in_region(r, a[1]): outer.add((a[3], ctx[0]))
            cb = [(a[0], a[1], a[2]) for t, a, ctx, phase in self.pl if t == 'n']
            phases = (7, 8, 9) if kind == 'UPDATE' else (10, 11, 13)
            has_status = bool(calls) or bool(pt.marks_s) or bool(pt.marks_f)
            executed, notes = pt.evaluate(prev_op.sub, phases, calls, outer, cb)
            obs_t = [(a[0], a[1], a[2]) for t, a, ctx, phase in self.pl if t == 't']
            obs_w = [(a[0], 'PF' if a[1] else 'PS') for t, a, ctx, phase in self.pl if t == 'w']
            obs_n = [(a[1], 'PF' if a[0] else 'PS') for t, a, ctx, phase in self.pl if t == 'n']
            self.stats['C06.steps'] += 1
            if has_status: self.stats['C06.steps-with-status'] += 1
            judged = True
            if not judged: self.stats['C06.unadjudicated(bottom-up react)'] += 1; self.plan_unjudged = True; pt.uncertain = True
            if judged:
                exp_t = [(t[1], pt.regions[r]) for r, t in executed]
                if [(d, o) for k, d, o in obs_t] != exp_t:
                    od = [(d, o) for k, d, o in obs_t]
                    what = 'order' if sorted(od) == sorted(exp_t) else ('eligible-task-not-executed' if len(od) < len(exp_t) else 'task-executed-that-should-not-be')
                    self.v('C06', 'execution|' + what, op, {'expected': [(KIND_NAMES[t[2]], t[0], t[1], t[3]) for r, t in executed][:6], 'observed': obs_t[:6]})
                else:
                    for (k, d, o), (r, t) in zip(obs_t, executed):
                        if k != t[2]: self.v('C06', 'execution|task-issued-as-%s-instead-of-its-kind' % KIND_NAMES[k], op, {'task': t, 'kind': KIND_NAMES[t[2]]}); break
                if obs_w != notes:
                    miss = [x for x in notes if x not in obs_w]; extra = [x for x in obs_w if x not in notes]
                    what = ('planFailed-missing' if any(x[1] == 'PF' for x in miss) else 'planSucceeded-missing') if miss else ('unexpected-plan-notification' if extra else 'notification-order')
                    self.v('C06', 'status|' + what, op, {'expected': notes[:6], 'observed': obs_w[:6]})
                exp_n = [x for x in notes if self.named[x[0]]]
                if obs_n != exp_n and obs_w == notes: self.v('C06', 'status|head-callback-differs-from-notification', op, {'expected': exp_n[:6], 'observed': obs_n[:6]})
                if executed: self.nontrivial['C06'].add((prev_op.sub, tuple(t[3] for r, t in executed)))
                if notes: self.nontrivial['C06'].add((prev_op.sub, tuple(notes)))
            else:
                exp_t = [(t[1], pt.regions[r]) for r, t in executed]
            for r, t in executed: self.stats['C06.tasks-executed'] += 1
            self.stats['C06.plan-notifications'] += len(notes)
        # resolve the executor's requests to the ids of the tasks they carry
        out = []; ei = 0
        for q in pre:
            if q[0] == 'T':
                if ei < len(executed) and executed[ei][1][1] == q[2]: out.append((q[1], q[2], executed[ei][1][3], q[3])); ei += 1
                else:
                    tid = -1
                    if q[3] in pt.ridx:
                        for tsk in plans_before.get(pt.ridx[q[3]], []):
                            if tsk[1] == q[2]: tid = tsk[3]; plans_before[pt.ridx[q[3]]].remove(tsk); break
                    out.append((q[1], q[2], tid, q[3]))
            else: out.append(q)
        return out
    def plan_after(self, op, st, kind, m, cbs, prev_op):
        pt = st['plan']
        def viol(prop, key, detail): self.v(prop, key, op, detail)
        # marks die with the exit of their state (anonymous heads included)
        for s in m.exited_all: pt.marks_s.discard(s); pt.marks_f.discard(s)
        for me, s in cbs:
            if me == EXIT or me == REENTER: pt.marks_s.discard(s); pt.marks_f.discard(s)
        if prev_op is not None and prev_op.act:
            for s in range(self.n):
                if prev_op.act[s] == '1' and op.act[s] != '1': pt.marks_s.discard(s); pt.marks_f.discard(s)
        if kind in ('EXIT', 'LOAD'): pt.reset_all()
        for t, a, ctx, phase in self.pl:
            if phase == 1 and t in ('A', 'X', 'K'): self.stats['C07.' + pt.edit(t, a, viol)] += 1
        if self.dumps and getattr(self, 'plan_unjudged', False): pt.restore(self.dumps)
        elif self.dumps:
            self.stats['C07.plan-comparisons'] += len(self.dumps)
            pt.compare(self.dumps, self.cdumps, viol, self.hdumps)
            key = tuple((r, tuple(t[3] for t in pt.plans[r])) for r in sorted(pt.plans) if pt.plans[r])
            if key: self.nontrivial['C07'].add(key)
            tot = sum(n for n, _ in self.dumps.values())
            if tot != pt.total(): self.v('C07', 'count|lengths-do-not-add-up-to-stored-tasks', op, {'iterated': tot, 'shadow': pt.total()})
            pt.restore(self.dumps)

    # ------------------------------------------------------------------ C16
    def mirror(self, op):
        pend = None; lastpair = None; q = None; cancel = None; status = None; wrec = None
        def named(s): return 0 <= s < self.n and self.named[s]
        for t, a in op.lines:
            if t == 'M':
                if pend is not None and named(pend[1]): self.v('C16', 'method|record-without-the-callback|' + METH.get(pend[0], '?'), op, pend)
                pend = (a[0], a[1]); self.stats['C16.method-records'] += 1
                if a[0] in (16, 17):
                    # planSucceeded / planFailed records (also those of heads without a user-defined handler: verbose logging, anonymous heads)
                    # follow the plan-status record of the same region, and name the same outcome
                    self.stats['C16.plan-notification-records-matched-with-plan-status-records'] += 1
                    if wrec != (a[1], a[0] - 16): self.v('C16', 'plan|planSucceeded-or-planFailed-record-contradicts-the-plan-status-record', op, {'method-record': a, 'plan-status-record': wrec})
                if pend in self.masked:
                    # the property demands a record for every user-defined callback, not silence about inherited ones
                    # (the library's static_cast to Head::* makes inherited react/query handlers look overridden): counted, not judged
                    self.stats['C16.records-for-methods-not-overridden(not judged)'] += 1; pend = None
                if not (0 <= a[1] < self.n): self.v('C16', 'method|record-with-invalid-state-id', op, a)
            elif t in ('c', 'a', 'j'):
                key = (a[0], a[1]); self.stats['C16.callbacks-mirrored'] += 1
                if pend == key: pend = None; lastpair = key
                elif lastpair == key and a[1] in self.inj: pass
                else: self.v('C16', 'method|callback-without-preceding-record|' + METH.get(a[0], '?'), op, {'callback': key, 'pending-record': pend})
                if t == 'c' and a[0] in (16, 17):
                    if wrec != (a[1], a[0] - 16): self.v('C16', 'plan|head-notified-without-plan-status-record', op, {'callback': key, 'record': wrec})
                    wrec = None
            elif t == 'q':
                if q is not None: self.v('C16', 'transition|request-without-record', op, q)
                q = (a[0], a[1], a[3])
            elif t == 't':
                rec = (a[0], a[1], a[2]); self.stats['C16.transition-records'] += 1
                if q is not None:
                    if q != rec: self.v('C16', 'transition|record-differs-from-request', op, {'request': q, 'record': rec})
                    q = None
                elif not self.plans_on: self.v('C16', 'transition|record-without-request', op, rec)
            elif t == 'g':
                if cancel is not None: self.v('C16', 'cancel|cancellation-without-record', op, cancel)
                cancel = a[1] if a[2] else None
            elif t == 'x':
                self.stats['C16.cancel-records'] += 1
                if cancel != a[0]: self.v('C16', 'cancel|record-without-cancellation', op, a)
                cancel = None
            elif t == 's':
                if status is not None: self.v('C16', 'status|succeed-or-fail-without-record', op, status)
                status = (a[1], a[0])
            elif t == 'u':
                self.stats['C16.task-status-records'] += 1
                if status is not None and status == (a[1], a[2]): status = None
                elif status is not None: self.v('C16', 'status|record-differs-from-call', op, {'call': status, 'record': a}); status = None
                # default planSucceeded/planFailed handlers call succeed()/fail() themselves: a record without an 's' line is theirs
            elif t == 'w':
                wrec = (a[0], a[1]); self.stats['C16.plan-status-records'] += 1
            elif t == 'N':
                self.names = a
                for i, nm in enumerate(a):
                    if self.named[i] and nm != '%dN%d' % (len('N%d' % i), i): self.v('C16', 'structure|entry-name-differs-from-state', op, {'index': i, 'name': nm}); break
                if len(a) != self.n: self.v('C16', 'structure|entry-count-differs-from-state-count', op, len(a))
            elif t == 'Y':
                self.structure(op, a)
        if pend is not None and named(pend[1]): self.v('C16', 'method|record-without-the-callback|' + METH.get(pend[0], '?'), op, pend)
        if q is not None: self.v('C16', 'transition|request-without-record', op, q)
        if cancel is not None: self.v('C16', 'cancel|cancellation-without-record', op, cancel)
        if status is not None: self.v('C16', 'status|succeed-or-fail-without-record', op, status)
    def structure(self, op, a):
        n = a[0]; st = self.state(op.inst)
        if n != self.n: self.v('C16', 'structure|entry-count-differs-from-state-count', op, n); return
        flags = a[1::2]; hist = a[2::2]
        self.stats['C16.structure-checks'] += 1
        if op.act is not None:
            for i in range(n):
                if (flags[i] == 1) != (op.act[i] == '1'): self.v('C16', 'structure|isActive-differs-from-isActive(id)', op, {'state': i, 'structure': flags[i], 'isActive': op.act[i]}); break
        prev = st.get('hist')
        for i in range(n):
            h = hist[i]; act = flags[i] == 1
            if h != 0 and (h > 0) != act: self.v('C16', 'activity|sign-contradicts-activity', op, {'state': i, 'history': h, 'active': act}); break
            if prev is not None:
                p = prev[i]
                if act: step = 1 if p <= 0 else min(p + 1, 127)
                else: step = -1 if p >= 0 else max(p - 1, -128)
                if h != p and h != step: self.v('C16', 'activity|not-one-saturating-step-from-previous-value', op, {'state': i, 'previous': p, 'now': h, 'active': act}); break
                if abs(h) >= 127: self.stats['C16.saturated-history-values'] += 1
        if prev is not None and prev != hist: self.nontrivial['C16'].add(tuple(hist))
        st['hist'] = list(hist)

    # ------------------------------------------------------------------ C02 (independent of the interpreter)
    def postcondition(self, op, m, pre, guards, rounds, before, prev_op, queued_before):
        if queued_before or any(g['issue'] for g in guards) or any(r['vetoed'] for r in rounds) or 'queue-full-rejected' in m.notes: return
        nodes = self.nodes
        if len(pre) == 2 and pre[0][0] != SCHEDULE and pre[1][0] != SCHEDULE:
            # two requests into different prongs of an orthogonal region do not conflict: both destinations must end up active
            d1, d2 = pre[0][1], pre[1][1]
            a1 = [d1] + self.ancestors(d1); a2 = set([d2] + self.ancestors(d2))
            lca = next((x for x in a1 if x in a2), None)
            if lca is not None and lca not in (d1, d2) and nodes[lca]['kind'] == 'O':
                self.stats['C02.postconditions'] += 1
                for d, other in ((d1, d2), (d2, d1)):
                    if op.act[d] != '1':
                        under = nodes[nodes[other]['parent']]['kind'] == 'O' or nodes[nodes[d]['parent']]['kind'] == 'O'
                        self.v('C02', 'post|non-conflicting-request-of-the-batch-lost' + ('|destination-directly-under-orthogonal-region-re-resolves-sibling-prongs' if under else ''), op, {'requests': [pre[0][:2], pre[1][:2]], 'lost': d}); break
            return
        if len(pre) != 1: return
        k, d = pre[0][0], pre[0][1]
        if k == SCHEDULE: return
        nodes = self.nodes
        self.stats['C02.postconditions'] += 1
        # every requested destination and all its ancestors are active
        s = d
        while s >= 0:
            if op.act[s] != '1': self.v('C02', 'post|destination-or-ancestor-not-active-after-approved-request|' + KIND_NAMES[k], op, {'destination': d, 'inactive': s}); return
            s = nodes[s]['parent']
        # regions no request touches keep their sub-state
        touched = set(self.ancestors(d)) | set(self.subtree(d))
        for x in nodes:
            r = x['id']
            if x['kind'] != 'C' or r in touched or before[0][r] != '1' or op.act[r] != '1': continue
            if prev_op.sub[r] != op.sub[r]:
                par = nodes[d]['parent']
                under = par >= 0 and nodes[par]['kind'] == 'O'
                self.v('C02', 'post|untouched-region-changed-its-sub-state' + ('|destination-directly-under-orthogonal-region-re-resolves-sibling-prongs' if under else '|' + KIND_NAMES[k]), op, {'destination': d, 'region': r, 'before': prev_op.sub[r], 'after': op.sub[r]}); return
        # every region below the destination picks its sub-state by the request kind
        if k in (1, 2, 3):
            for r in self.subtree(d):
                x = nodes[r]
                if x['kind'] != 'C' or op.act[r] != '1': continue
                sub = ord(op.sub[r]) - 48 if op.sub[r] not in '-.' else None
                if k == 1: want = 0
                elif k == 3:
                    if not self.named[r]: continue
                    want = m.ans.select(r)
                else:
                    if before[0][r] == '1' and r != d: continue       # region was active: 'last active' is not defined by the property
                    if before[0][r] == '1': continue
                    marks = [i for i, c in enumerate(x['children']) if before[1][c] == '1']
                    want = marks[0] if marks else 0
                    if marks:
                        # C13, judged on the queries alone: the sub-state isResumable() named is the one this resume activates
                        self.stats['C13.resume-of-a-region-with-a-reported-resumable'] += 1
                        self.nontrivial['C13.resume'].add((r, want))
                        if sub != want: self.v('C13', 'resumable|resume-activated-another-sub-state-than-the-one-reported-resumable', op, {'region': r, 'reported': want, 'activated': sub})
                if sub != want:
                    par = nodes[d]['parent']
                    ign = '|active-destination-directly-under-orthogonal-region' if (par >= 0 and nodes[par]['kind'] == 'O' and before[0][d] == '1') else ''
                    self.v('C02', 'post|region-below-destination-not-resolved-by-request-kind' + ign + ('|' + KIND_NAMES[k] if not ign else ''), op, {'destination': d, 'region': r, 'sub-state': sub, 'prescribed': want}); return

    # ------------------------------------------------------------------ C12
    def selection(self, op, m, cfg_ok):
        code = {'select': 0, 'utility': 1, 'random': 2}
        exp = [(code[t], n, p) for t, n, p in m.resolutions]
        obs = [(r[0], r[1], r[2]) for r in self.rl if r[2] != 255]
        if self.mirror_on and obs != exp:
            # C16: every resolution is reported exactly once (judged when the records are the interpreter's resolutions with some missing, or with extras)
            def subseq(a, b):
                it = iter(b); return all(any(x == y for y in it) for x in a)
            if len(obs) < len(exp) and subseq(obs, exp):
                miss = next((e for i, e in enumerate(exp) if i >= len(obs) or obs[i] != e), None)
                self.v('C16', 'resolution|%s-resolution-without-record' % {0: 'select', 1: 'utility', 2: 'random'}.get(miss[0] if miss else 2), op, {'expected': exp[:6], 'recorded': obs[:6]})
            elif len(obs) > len(exp) and subseq(exp, obs):
                self.v('C16', 'resolution|record-without-resolution', op, {'expected': exp[:6], 'recorded': obs[:6]})
        if self.rl or exp:
            self.stats['C12.resolutions'] += len(obs)
            if obs != exp and self.rl:
                i = 0
                while i < min(len(obs), len(exp)) and obs[i] == exp[i]: i += 1
                bad = obs[i] if i < len(obs) else (exp[i] if i < len(exp) else None)
                kindname = {0: 'select', 1: 'utilize', 2: 'randomize'}.get(bad[0] if bad else 1)
                if i < len(obs) and i < len(exp) and obs[i][:2] == exp[i][:2]: what = 'chose-another-sub-state'
                else: what = 'resolution-sequence-differs'
                self.v('C02' if kindname == 'select' else 'C12', '%s|%s' % (kindname, what), op, {'index': i, 'expected': exp[max(0, i - 1):i + 3], 'observed': obs[max(0, i - 1):i + 3]})
        # C16 "in the order it happens": the resolution records sit among the select()/rank()/utility() calls where the interpreter
        # places the resolutions (compared per segment between consecutive records, as multisets: the order in which independent
        # candidates are asked is nobody's business)
        if self.mirror_on and self.rl and obs == exp:
            def segments(stream):
                segs = [[]]
                for e in stream:
                    if e[0] == 'r': segs.append([])
                    else: segs[-1].append(e[1:])
                return [sorted(x) for x in segs]
            so = segments([('a',) + tuple(a[:2]) if t == 'a' else ('r',) for t, a in op.lines if (t == 'a' and a[0] in (1, 2, 3)) or (t == 'r' and a[2] != 255)])
            se = segments([e if e[0] == 'a' else ('r',) for e in m.events])
            self.stats['C16.resolution-placements-checked'] += len(obs)
            if so != se:
                i = 0
                while i < min(len(so), len(se)) and so[i] == se[i]: i += 1
                rec = obs[i] if i < len(obs) else (obs[-1] if obs else None)
                self.v('C16', 'resolution|%s-record-not-where-the-resolution-happens' % {0: 'select', 1: 'utility', 2: 'random'}.get(rec[0] if rec else 0), op, {'record-index': i, 'record': rec, 'calls-seen-before-it': so[i] if i < len(so) else None, 'calls-made-before-the-resolution': se[i] if i < len(se) else None})
        # independent exact-arithmetic check of every weighted draw the interpreter resolved
        for node, utils, ranks, top, r, chosen in m.random_cases:
            self.stats['C12.random-draws-checked'] += 1
            if any(u == 0 and ranks[i] == top for i, u in enumerate(utils)): self.stats['C12.random-draws-with-a-zero-utility-top-rank-candidate'] += 1
            U = [Fraction(u) for u in utils]; S = sum(U); x = Fraction(r) * S
            key = (tuple(ranks), tuple(utils), r)
            self.nontrivial['C12'].add((node,) + key)
            if ranks[chosen] != top: self.v('C12', 'randomize|chose-sub-state-of-lower-rank', op, {'region': node, 'ranks': ranks, 'chosen': chosen}); continue
            if U[chosen] <= 0: self.v('C12', 'randomize|chose-sub-state-with-zero-utility', op, {'region': node, 'utilities': utils, 'chosen': chosen}); continue
            lo = sum(U[i] for i in range(chosen) if ranks[i] == top); hi = lo + U[chosen]
            tol = Fraction(2 * math.ulp(float(S)) if S else 0)   # float32 ulp >= double ulp: use float32 spacing
            tol = Fraction(float(S)) * Fraction(1, 2 ** 22) if S else Fraction(0)
            if not (lo - tol <= x < hi + tol):
                self.v('C12', 'randomize|chosen-interval-does-not-contain-r-times-sum', op, {'region': node, 'utilities': utils, 'ranks': ranks, 'r': r, 'chosen': chosen})
            if abs(x - lo) <= tol or abs(x - hi) <= tol: self.stats['C12.draws-on-interval-boundary'] += 1
        for node, us, chosen in m.utility_cases:
            self.stats['C12.utility-choices-checked'] += 1
            self.nontrivial['C12'].add((node, tuple(us)))
            mx = max(us)
            if us[chosen] != mx or any(u == mx for u in us[:chosen]): self.v('C12', 'utilize|interpreter-self-check-failed', op, {'utilities': us, 'chosen': chosen})
            if us.count(mx) > 1: self.stats['C12.utility-ties'] += 1

    # ------------------------------------------------------------------ C05
    def order(self, op, kind, m, cbs, before, prev_op):
        nodes = self.nodes; act = before[0]; sub = prev_op.sub
        ans = m.ans
        def consume(state, meth): return self.pconsume and (meth, state) not in self.masked and (ans.h(state, 40 + meth) % 1000) < self.pconsume
        def kids(n):
            if nodes[n]['kind'] == 'C':
                i = ord(sub[n]) - 48 if sub[n] not in '-.' else -1
                return [nodes[n]['children'][i]] if 0 <= i < len(nodes[n]['children']) else []     # a malformed configuration is C01's finding, not a reason to stop
            return nodes[n]['children']
        exp = []
        def simple(n, meth, pre):
            if nodes[n]['kind'] == 'L': exp.append((meth, n)); return
            if pre:
                if self.named[n]: exp.append((meth, n))
                for c in kids(n): simple(c, meth, pre)
            else:
                for c in kids(n): simple(c, meth, pre)
                if self.named[n]: exp.append((meth, n))
        consumed = [False]; expk = []
        def deliver(n, meth):
            exp.append((meth, n))
            if consume(n, meth): consumed[0] = True; expk.append((meth, n))
        def walk(n, meth, headfirst):
            if consumed[0]: return
            if nodes[n]['kind'] == 'L': deliver(n, meth); return
            def head():
                if self.named[n]: deliver(n, meth)
            def subs():
                for c in kids(n): walk(c, meth, headfirst)
            if headfirst:
                head()
                if not consumed[0]: subs()
            else:
                subs()
                if not consumed[0]: head()
        bu = self.bottomup
        if act[0] != '1': return
        if kind == 'UPDATE':
            fam = (7, 8, 9); simple(0, 7, True); simple(0, 8, True); simple(0, 9, False)
        elif kind in ('REACT', 'REACT2'):
            fam = (10, 11, 13)
            for meth, hf in ((10, not bu), (11, not bu), (13, bu)):
                consumed[0] = False; walk(0, meth, hf)
        else:
            fam = (12,); consumed[0] = False; walk(0, 12, not bu)
        if self.masked: exp = [x for x in exp if x not in self.masked]
        obs = [(me, s) for me, s in cbs if me in fam]
        self.stats['C05.deliveries'] += len(obs)
        if expk: self.stats['C05.ops-with-consume'] += 1; self.nontrivial['C05'].add((act, sub, kind, tuple(expk)))
        else: self.nontrivial['C05'].add((act, sub, kind))
        if obs != exp:
            # classify
            if sorted(obs) == sorted(exp): what = 'order'
            elif len(obs) > len(exp) and obs[:len(exp)] != exp and set(exp) <= set(obs): what = 'delivered-after-consume-or-to-inactive'
            elif set(obs) - set(exp): what = 'unexpected-delivery' + ('-after-consume' if expk else '')
            else: what = 'missing-delivery'
            self.v('C05', 'order|%s|%s%s' % (kind.lower().rstrip('2'), what, '|bottom-up' if bu else ''), op, {'expected': exp[:40], 'observed': obs[:40], 'consumed': expk})
        if self.klines != expk and self.pconsume:
            self.v('C00', 'harness|consume-script-mismatch', op, {'expected': expk, 'observed': self.klines})
    def injected(self, op):
        if not self.inj: return
        seq = [x for x in self.cj if x[2] in self.inj and 4 <= x[1] <= 15]
        down = (5, 6, 7, 8, 10, 11); up = (9, 13, 15)
        i = 0; n = len(seq)
        while i < n:
            t, me, s = seq[i]
            layers = 3 if s % 2 == 1 else 2           # odd injected states carry two injected layers ('j' and 'i')
            grp = seq[i:i + layers]
            self.stats['C05.injected-groups'] += 1
            tags = sorted(x[0] for x in grp)
            if len(grp) < layers or any(x[1] != me or x[2] != s for x in grp) or tags != (['c', 'i', 'j'] if layers == 3 else ['c', 'j']):
                self.v('C05', 'injected|handlers-of-one-callback-not-delivered-once-each', op, {'at': seq[max(0, i - 1):i + 4], 'layers': layers - 1}); i += 1; continue
            if me in down and grp[-1][0] != 'c': self.v('C05', 'injected|own-handler-before-injected-on-the-way-down|' + METH[me], op, s)
            if me in up and grp[0][0] != 'c': self.v('C05', 'injected|injected-handler-before-own-on-the-way-up|' + METH[me], op, s)
            i += layers

    # ------------------------------------------------------------------ C04
    def guards_trace(self, op, kind, guards, cbs, rounds, notes, before, pre, queued_before):
        first_life = None
        for i, (me, s) in enumerate(cbs):
            if me in LIFE: first_life = i; break
        if first_life is not None:
            for g in guards:
                if g['pos'] > first_life: self.v('C04', 'order|guard-after-lifecycle-callback', op, g['state']); break
        obs_rounds = []; cur = None
        for g in guards:
            if cur is None or cur['pend'] != g['pend']:
                cur = {'pend': g['pend'], 'x': set(), 'e': set(), 'cancel': False, 'seen_e': False, 'full': g['full']}; obs_rounds.append(cur)
            if g['which'] == 1:
                if cur['seen_e']: self.v('C04', 'order|exit-guard-after-entry-guard-in-a-round', op, g['state'])
                cur['x'].add(g['state'])
            else:
                cur['seen_e'] = True; cur['e'].add(g['state'])
            if g['cancel']: cur['cancel'] = True
            self.stats['C04.guard-calls'] += 1
        initial = kind in ('ENTER', 'CONSTRUCT')
        nr = len([r for r in obs_rounds if r['pend'] != [] or not initial])
        if nr > self.limit: self.v('C04', 'rounds|more-guard-phases-than-substitution-limit', op, nr)
        for nkey in ('guards-unconsumed',):
            if nkey in notes: self.v('C04', 'pending|guards-do-not-match-the-rounds-prescribed|' + nkey, op, {'observed-rounds': [r['pend'] for r in obs_rounds], 'model-rounds': [r['ids'] for r in rounds]})
        approved = [r for r in obs_rounds if not r['cancel']]
        xg = set(); eg = set()
        for r in approved: xg |= r['x']; eg |= r['e']
        lifes = [(me, s) for me, s in cbs if me in LIFE]
        if lifes and not approved and not initial: self.v('C04', 'veto|lifecycle-callback-without-approved-round', op, lifes[:4])
        for me, s in lifes:
            if me == ENTER and s not in eg: self.v('C04', 'order|enter-without-entry-guard-in-approved-round', op, s)
            if me == EXIT and s not in xg: self.v('C04', 'order|exit-without-exit-guard-in-approved-round', op, s)
        # all rounds vetoed, no scheduling request: nothing may change (independent of the interpreter)
        allreq = pre + [q for g in guards for q in g['issue']]
        if obs_rounds and not approved and not initial and before and not any(q[0] == SCHEDULE for q in allreq) and not queued_before:
            if (op.act, op.res) != before: self.v('C04', 'veto|configuration-changed-although-every-round-was-vetoed', op, {'before': before, 'after': (op.act, op.res)})

    # ------------------------------------------------------------------ C09
    def history(self, op, kind, m, rounds, cbs, before):
        obs = [p[0] for p in op.prev]; exp = [r[2] for r in m.prev]
        self.stats['C09.history-checks'] += 1
        if kind in ('RESET', 'EXIT', 'QUERY'):
            if kind != 'QUERY' and obs: self.v('C09', 'history|not-empty-after-' + kind.lower(), op, obs)
            return
        if kind in ('PLANEDIT', 'EXTSTATUS'): return
        if obs != exp:
            self.v('C09', 'history|previousTransitions-differs' + ('|remain-only-round' if 'remain-only-round' in m.notes else ''), op, {'expected': exp, 'observed': obs})
        else:
            for p, r in zip(op.prev, m.prev):
                if (p[1], p[2], p[3]) != (r[0], r[1], r[3]): self.v('C09', 'history|entry-fields-differ', op, {'expected': r, 'observed': p}); break
        if obs: self.nontrivial['C09'].add((tuple(p[1:3] for p in op.prev), op.act))
        if op.tgt is not None:
            for s, (idx, tid) in op.tgt.items():
                if idx < 0 or idx >= len(op.prev): self.v('C09', 'lastTransitionTo|points-outside-previousTransitions', op, s)
            approved = [r for r in rounds if not r['vetoed']]
            if len(op.prev) == 1 and len(approved) == 1 and before and kind not in ('ENTER', 'CONSTRUCT'):
                newly = [s for s in range(self.n) if op.act[s] == '1' and before[0][s] != '1']
                util = set(r[1] for r in m.resolutions if r[0] in ('utility', 'random'))
                for s in newly:
                    t = op.tgt.get(s)
                    if t is None:
                        below = any(a in util for a in self.ancestors(s))
                        self.v('C09', 'lastTransitionTo|null-for-state-activated-by-single-request' + ('|sub-state-chosen-by-utility-or-random-evaluation' if below else ''), op, s); break
                    elif t[0] != 0: self.v('C09', 'lastTransitionTo|points-at-another-entry-after-single-request', op, s); break
            # model comparison (which entry each state is pinned to)
            exp_t = {s: i for s, i in m.targets.items() if i < len(m.prev)}
            obs_t = {s: i for s, (i, _) in op.tgt.items()}
            if exp_t != obs_t and obs == exp:
                self.stats['C09.targets-differ-from-model'] += 1
                # C14: a state activated in this step must not be attributed to a different request of the step
                if before:
                    for s in range(self.n):
                        if op.act[s] == '1' and before[0][s] != '1' and s in obs_t and s in exp_t and obs_t[s] != exp_t[s]:
                            self.v('C14', 'payload|lastTransitionTo-attributes-state-to-another-request-of-the-step', op, {'state': s, 'expected-entry': exp_t[s], 'observed-entry': obs_t[s], 'history': obs}); break

    # ------------------------------------------------------------------ C13
    def queries(self, op, kind, plines, rounds, cbs, before, m):
        if op.live:
            for name, bits in (('enter', op.pe), ('exit', op.px), ('change', op.pc)):
                if '1' in bits: self.v('C13', 'pending|isPending%s-true-while-nothing-pending' % name.capitalize(), op, bits)
        for x in self.nodes:
            if x['kind'] == 'C' and sum(1 for c in x['children'] if op.res[c] == '1') > 1: self.v('C13', 'resumable|two-resumable-substates', op, x['id'])
        self.stats['C13.quiescent-checks'] += 1
        # the one approved round of the step, preceded by vetoed rounds only (a veto changes nothing, so before -> after is that round's doing)
        judged = None
        if plines and before and rounds and not rounds[-1]['vetoed'] and len(rounds[-1]['ids']) == 1 and all(r['vetoed'] for r in rounds[:-1]) and kind in ('UPDATE', 'REACT', 'REACT2', 'IMMEDIATE') and 'leftover' not in m.notes:
            if len(rounds) == 1: judged = plines[0]
            else:
                gl = getattr(self, 'last_guards', [])
                for pos, vec in plines:
                    if 0 < pos <= len(gl) and gl[pos - 1]['pend'] == rounds[-1]['ids']: judged = (pos, vec)
                if judged is not None: self.stats['C13.guard-vector-checks-in-substitute-rounds'] += 1
        if judged is not None:
            pos, (pe, px, pc) = judged
            exited = set(s for me, s in cbs if me == EXIT); entered = set(s for me, s in cbs if me == ENTER)
            both = exited & entered
            exp_e = set(s for s in range(self.n) if op.act[s] == '1' and before[0][s] != '1')
            exp_x = set(s for s in range(self.n) if op.act[s] != '1' and before[0][s] == '1')
            obs_e = set(i for i, c in enumerate(pe) if c == '1'); obs_x = set(i for i, c in enumerate(px) if c == '1'); obs_c = set(i for i, c in enumerate(pc) if c == '1')
            dont = set()
            exp_e |= both; exp_x |= both
            self.stats['C13.guard-vector-checks'] += 1
            self.nontrivial['C13'].add((before[0], op.act))
            if (obs_e - dont) != (exp_e - dont): self.v('C13', 'pending|isPendingEnter-differs-from-states-entered', op, {'extra': sorted(obs_e - exp_e - dont)[:6], 'missing': sorted(exp_e - obs_e - dont)[:6]})
            if (obs_x - dont) != (exp_x - dont): self.v('C13', 'pending|isPendingExit-differs-from-states-exited', op, {'extra': sorted(obs_x - exp_x - dont)[:6], 'missing': sorted(exp_x - obs_x - dont)[:6]})
            if (obs_c - dont) != ((exp_e | exp_x) - dont): self.v('C13', 'pending|isPendingChange-differs-from-states-changed', op, {'extra': sorted(obs_c - exp_e - exp_x - dont)[:6], 'missing': sorted((exp_e | exp_x) - obs_c - dont)[:6]})
    def subtree(self, s):
        out = [s]
        for c in self.nodes[s]['children']: out += self.subtree(c)
        return out

    # ------------------------------------------------------------------ C14
    def payloads(self, op, kind, m, guards, enters, llines, prev_op, pre):
        issued = {q[2]: q for q in pre}
        for g in guards:
            for q in g['issue']: issued[q[2]] = q
        known = dict(issued)
        for r in m.prev: known[r[2]] = r
        for g in guards:
            for f in g['full']:
                self.stats['C14.payloads-seen-by-guards'] += 1
                if f[0] == -777 or f[0] == -778: self.v('C14', 'payload|corrupted-in-pending-transition', op, f)
        for st_, seen, want in m.payload_mismatch[:1]:
            bad = [(a, b) for a, b in zip(seen, want) if a[0] != b[0]]
            what = 'request-without-payload-exposes-one' if any(b[0] == -1 for a, b in bad) else ('payload-missing' if any(a[0] == -1 for a, b in bad) else 'payload-of-another-request')
            self.v('C14', 'payload|pendingTransitions-seen-by-guard|' + what, op, {'guard-state': st_, 'seen': seen[:6], 'issued': want[:6]})
        if op.prev is not None and len(op.prev) == len(m.prev) and [p[1:] for p in op.prev] == [(r[0], r[1], r[3]) for r in m.prev]:
            bad = [(p[0], r[2]) for p, r in zip(op.prev, m.prev) if p[0] != r[2]]
            if bad:
                what = 'request-without-payload-exposes-one' if any(b == -1 for a, b in bad) else ('payload-missing' if any(a == -1 for a, b in bad) else 'payload-of-another-request')
                self.v('C14', 'payload|previousTransitions|' + what, op, {'recorded': [p[0] for p in op.prev], 'issued': [r[2] for r in m.prev]})
        exp_cur = [r[2] for r in m.prev]
        for s, ids in enters:
            self.stats['C14.payloads-seen-in-enter'] += 1
            if -777 in ids or -778 in ids: self.v('C14', 'payload|corrupted-in-currentTransitions', op, ids)
            elif kind not in ('RESET',) and list(ids) != exp_cur and 'remain-only-round' not in m.notes:
                self.v('C14', 'payload|currentTransitions-in-enter-differ-from-approved-requests', op, {'state': s, 'seen': list(ids), 'expected': exp_cur}); break
        if op.prev:
            for p in op.prev:
                if p[0] in (-777, -778): self.v('C14', 'payload|corrupted-in-previousTransitions', op, p)
            withid = [p[0] for p in op.prev if p[0] != -1]
            if len(set(withid)) != len(withid): self.v('C14', 'payload|ids-merged-in-previousTransitions', op, [p[0] for p in op.prev])
        if prev_op is not None and prev_op.tgt is not None:
            for s, tid in llines:
                self.stats['C14.lastTransition-reads'] += 1
                t = prev_op.tgt.get(s)
                if t is None or t[1] != tid: self.v('C14', 'payload|lastTransition-in-update-differs-from-lastTransitionTo', op, {'state': s, 'read': tid, 'reported': t})
        if op.prev: self.nontrivial['C14'].add(tuple(p[0] for p in op.prev))

_akeys = {}
def assert_key(fname, line):
    """stable key of a library assertion: enclosing function + asserted expression (survives line shifts)"""
    import os, re
    k = (fname, line)
    if k in _akeys: return _akeys[k]
    repo = os.environ.get('VERIF_REPO', '/repo'); path = None
    for d, _, files in os.walk(repo):
        if '/.git' in d or '/_build' in d or '/external' in d or '/test' in d: continue
        if fname in files: path = os.path.join(d, fname); break
    key = '%s:%d' % (fname, line)
    if path:
        try:
            src = open(path, encoding='utf-8', errors='replace').read().split('\n')
            expr = re.sub(r'\s+', ' ', src[line - 1].strip())[:90]
            fn = '?'
            for i in range(line - 1, max(0, line - 400), -1):
                mm = re.match(r'^([A-Za-z_][\w]*)<.*>::(~?\w+)\s*\(', src[i]) or re.match(r'^([A-Za-z_][\w]*)::(~?\w+)\s*\(', src[i])
                if mm: fn = mm.group(1) + '::' + mm.group(2); break
            key = fn + '|' + expr
        except Exception: pass
    _akeys[k] = key
    return key

def summarize(chk, header, trailer, stray):
    return {
        'violations': chk.viol,
        'stats': dict(chk.stats),
        'distinct_configs': len(chk.configs),
        'nontrivial': {k: len(v) for k, v in chk.nontrivial.items()},
        'matrix': sorted('/'.join(x) for x in chk.nontrivial.get('C02.matrix', [])),
        'samples': chk.samples,
        'trailer': trailer, 'stray': stray[:5],
    }

def main():
    shape = json.load(open(sys.argv[1])); log = sys.argv[2]
    kv = dict(a.split('=', 1) for a in sys.argv[3:])
    header, ops, trailer, stray = parse(log)
    if header is None:
        print(json.dumps({'error': 'no header'})); return 2
    seed = int(header[3]); manual = header[4] == '1'; subst = int(header[5])
    knobs = {k: int(v) for k, v in kv.items() if k in ('zeroUtil', 'palette', 'fineUtil')}
    dev = tuple(x for x in kv.get('dev', '').split(',') if x)
    chk = Checker(shape, seed, knobs, subst, manual, dev)
    chk.run(ops)
    for sv in stray:
        if sv and sv[0] != 'unparsed' and isinstance(sv[0], str) and '.' in sv[0]:
            chk.v(sv[0].split('.')[0], 'inproc|' + sv[0].split('.', 1)[1], None, sv[1:])
    out = summarize(chk, header, trailer, stray)
    if trailer is None: out['error'] = 'no trailer (harness did not finish)'
    print(json.dumps(out))
    return 0

if __name__ == '__main__':
    sys.exit(main())
