#!/usr/bin/env python3
"""Reference interpreter of HFSM2's transition rules (DESIGN.md section 3).

Explicit tree + dictionaries; stepped with the *observed* inputs of an operation (requests issued, what each guard
answered, pure callback answers recomputed from (seed, step, state)) and compared with the *observed* outcome.
`deviations` is a set of named toggles, each reproducing one known/previous implementation deviation; with the
empty set the interpreter is the property-level reading.
"""
import struct

CHANGE, RESTART, RESUME, SELECT, UTILIZE, RANDOMIZE, SCHEDULE = range(7)
KIND_NAMES = ['change', 'restart', 'resume', 'select', 'utilize', 'randomize', 'schedule']
M64 = (1 << 64) - 1
INVALID = 255

def mix(z):
    z = (z + 0x9e3779b97f4a7c15) & M64
    z = ((z ^ (z >> 30)) * 0xbf58476d1ce4e5b9) & M64
    z = ((z ^ (z >> 27)) * 0x94d049bb133111eb) & M64
    return z ^ (z >> 31)

_pack = struct.Struct('f')
def f32(x):
    return _pack.unpack(_pack.pack(x))[0]

HOSTILE = [f32(v) for v in (0.0, 0.99999994, 0.9999999, 0.5, 0.25, 0.75, 0.125, 0.875, 0.375, 0.625, 0.33333334, 0.6666667, 1.17549435e-38, 0.49999997, 0.50000006, 0.9)]

class Answers:
    """pure callback answers; mirrors vh::Probe::ans* bit for bit"""
    def __init__(self, shape, seed, knobs):
        self.n = shape['nodes']; self.seed = seed; self.step = 0; self.draws = 0
        self.zero_util = knobs.get('zeroUtil', 1); self.palette = knobs.get('palette', 0); self.fine = knobs.get('fineUtil', 0)
        self._cache = {}
    def set_step(self, step):
        self.step = step; self.draws = 0; self._cache = {}
    def h(self, state, what):
        return mix((self.seed * 1000003 + self.step * 131 + state * 7 + what) & M64)
    def select(self, node):
        w = len(self.n[node]['children'])
        return self.h(node, 1) % (w if w > 0 else 1)
    def rank(self, node):
        if self.fine: return 1 if self.h(node, 2) % 5 == 0 else 0
        return self.h(node, 2) % 3
    def util8(self, node):
        key = node
        if key in self._cache: return self._cache[key]
        u = self.h(node, 3) % (3 if self.fine else 9)
        if u == 0:
            ok = False
            if self.zero_util:
                n = self.n[node]; par = n['parent']
                if par >= 0 and n['kind'] == 'L':
                    p = self.n[par]
                    if p['kind'] == 'C' and p['strategy'] in ('Utilitarian', 'Random') and n['prong'] > 0:
                        ok = self.rank(node) <= self.rank(p['children'][0])
                if par >= 0 and n['kind'] != 'L' and self.n[par]['kind'] == 'O' and n['prong'] > 0: ok = True
            if not ok: u = 1 + self.h(node, 4) % 8
        self._cache[key] = u
        return u
    def utility(self, node):
        u8 = self.util8(node)
        if self.fine and u8 != 0: return f32(((self.h(node, 5) & 0xffffff) + 1) / 16777216.0)
        return 0.125 * u8
    def rng(self):
        self.draws += 1
        x = self.h(1000 + self.draws, 99)
        if self.palette == 2:
            if (x >> 8) & 1: return HOSTILE[1]
            if (x >> 9) & 1: return HOSTILE[2]
        elif self.palette == 1 or (x & 3) == 0: return HOSTILE[(x >> 8) % 16]
        return f32(((x >> 16) & 0xffffff) / 16777216.0)

def tree_sum(vals):
    n = len(vals)
    if n == 1: return vals[0]
    h = n // 2
    return f32(tree_sum(vals[:h]) + tree_sum(vals[h:]))

class Model:
    def __init__(self, shape, seed, knobs=None, deviations=(), subst_limit=4):
        self.shape = shape; self.n = shape['nodes']; self.regions = shape['regions']
        self.ans = Answers(shape, seed, knobs or {})
        self.dev = set(deviations); self.limit = subst_limit
        self.compo = [r for r in self.regions if self.n[r]['kind'] == 'C']
        self.cap = len(self.compo)
        self.named_ = [not (x['kind'] != 'L' and x['headless']) for x in self.n]
        self.act = {r: None for r in self.compo}; self.res = {r: None for r in self.compo}
        self.on = False
        self.queue = []; self.prev = []
        self.notes = []; self.lc = []; self.resolutions = []; self.events = []
        self.targets = {}; self.cur_dest = None
        self.clear_req()

    # ------------------------------------------------------------------ helpers
    def clear_req(self):
        self.want = {r: None for r in self.compo}; self.remain = set()
        self.obits = {r: set() for r in self.regions if self.n[r]['kind'] == 'O'}
    def snap_req(self):
        return (dict(self.want), {k: set(v) for k, v in self.obits.items()}, set(self.remain))
    def kids(self, node): return self.n[node]['children']
    def kind(self, node): return self.n[node]['kind']
    def strat(self, node): return self.n[node]['strategy']
    def headless(self, node): return not self.named_[node]
    def child(self, node, p):
        ks = self.kids(node)
        if p is None or p >= len(ks):
            self.notes.append('bad-prong'); return ks[-1]
        return ks[p]
    def is_active(self, node):
        if not self.on: return False
        while self.n[node]['parent'] >= 0:
            par = self.n[node]['parent']
            if self.kind(par) == 'C' and self.act[par] != self.n[node]['prong']: return False
            node = par
        return True
    def set_step(self, step):
        self.ans.set_step(step); self.notes = []; self.lc = []; self.resolutions = []; self.events = []; self.exited_all = []; self.random_cases = []; self.utility_cases = []; self.payload_mismatch = []

    # scripted answers; an anonymous head has no user callbacks (the director keeps them out of resolutions)
    # 'events': select()/rank()/utility() calls and resolutions in the order they happen (a resolution happens when select() has
    # returned / when the last candidate has been evaluated / when the draw has been made)
    def resolved(self, r):
        self.resolutions.append(r); self.events.append(('r',) + tuple(r))
    def a_select(self, node):
        if self.headless(node): self.notes.append('select-on-anonymous-head'); return INVALID
        self.events.append(('a', 1, node))
        return self.ans.select(node)
    def a_rank(self, node):
        if self.headless(node): return 0
        self.events.append(('a', 2, node))
        return self.ans.rank(node)
    def a_utility(self, node):
        if self.headless(node): self.notes.append('utility-of-anonymous-head'); return 1.0
        self.events.append(('a', 3, node))
        return self.ans.utility(node)

    # ------------------------------------------------------------------ R1: targets of a request
    def request_immediate(self, dest):
        node = dest; phase = 1; via_ortho = False; deferred = None
        while self.n[node]['parent'] >= 0:
            par = self.n[node]['parent']; prong = self.n[node]['prong']
            if self.kind(par) == 'C':
                if phase == 1:
                    if via_ortho and self.act[par] == prong and 'ortho-destination-reenters-whole-region' not in self.dev:
                        # an active orthogonal region on the way is addressed by its prong bits only
                        if self.want[par] is not None and self.want[par] != prong: self.want[par] = None
                        deferred = (par, prong)      # needed after all when an ancestor ends up (re-)entering this region
                    else:
                        self.want[par] = prong
                    phase = 2
                elif phase == 2:
                    self.remain.add(par)
                    if (self.want[par] is not None and self.want[par] != prong) or self.act[par] != prong:
                        self.want[par] = prong
                        if deferred is not None and 'ortho-destination-lost-on-reentry' not in self.dev: self.want[deferred[0]] = deferred[1]; deferred = None
                    else:
                        phase = 3
                else:
                    self.remain.add(par)
                    if 'no-override-higher' not in self.dev:
                        if self.want[par] is not None and self.want[par] != prong:
                            self.want[par] = None; self.notes.append('override-higher')
            else:
                self.obits[par].add(prong); via_ortho = via_ortho or phase == 1
            node = par

    # ------------------------------------------------------------------ R2: downward resolution
    def pin(self, node, idx):
        if idx is not None and not self.is_active(node): self.targets[node] = idx
    def forward_active(self, node, k, idx=None):
        kd = self.kind(node)
        if kd == 'L': return
        if kd == 'C':
            w = self.want[node]
            if w is None and node == self.cur_dest and 'ortho-destination-reenters-whole-region' not in self.dev:
                self.deep_request(node, k, idx)      # reached through orthogonal regions only: this region is the destination
            elif w is None: self.forward_active(self.child(node, self.act[node]), k, idx)
            else: self.forward_request(self.child(node, w), k, idx)
        else:
            if self.obits[node] or 'ortho-destination-ignored' in self.dev:
                for p in sorted(self.obits[node]): self.forward_active(self.kids(node)[p], k, idx)
            elif node == self.cur_dest or 'ortho-without-bits-taken-for-destination' in self.dev:
                self.deep_request(node, k, idx)      # no prong addressed: the region itself is the destination
    def forward_request(self, node, k, idx=None):
        kd = self.kind(node)
        self.pin(node, idx)
        if kd == 'L': return
        mine = node == self.cur_dest and 'destination-keeps-earlier-resolution' not in self.dev   # the destination is resolved by its own request
        if kd == 'C':
            w = self.want[node]
            if w is not None and not mine: self.forward_request(self.child(node, w), k, idx)
            else: self.deep_request(node, k, idx)
        else:
            if self.obits[node] and not mine:
                for c in self.kids(node): self.forward_request(c, k, idx)
            else: self.deep_request(node, k, idx)
    def deep_request(self, node, k, idx=None):
        if k == CHANGE: self.request_change(node, idx)
        elif k == RESTART: self.request_restart(node, idx)
        elif k == RESUME: self.request_resume(node, idx)
        elif k == SELECT: self.request_select(node, idx)
        elif k == UTILIZE: self.request_utilize(node, idx)
        elif k == RANDOMIZE: self.request_randomize(node, idx)
    def request_change(self, node, idx=None):
        kd = self.kind(node)
        self.pin(node, idx)
        if kd == 'L': return
        if kd == 'O':
            if 'ortho-resolved-unmarked' not in self.dev: self.obits[node] = set(range(len(self.kids(node))))   # resolved as a whole: marked so
            for c in self.kids(node): self.request_change(c, idx)
            return
        s = self.strat(node)
        if s == 'Composite':
            self.want[node] = 0; self.request_change(self.kids(node)[0], idx)
        elif s == 'Resumable':
            w = self.res[node] if self.res[node] is not None else 0
            self.want[node] = w; self.request_change(self.child(node, w), idx)
        elif s == 'Selectable':
            w = self.a_select(node); self.want[node] = w
            self.resolved(('select', node, w))
            if 'no-select-descent' not in self.dev: self.request_change(self.child(node, w), idx)
        elif s == 'Utilitarian':
            u, p = self.wide_report_change_util(node); self.want[node] = p
            self.resolved(('utility', node, p))
        else:
            ranks, top = self.ranks(node)
            utils = [self.report_change(c) if ranks[i] == top else 0.0 for i, c in enumerate(self.kids(node))]
            self.want[node] = self.resolve_random(node, utils, ranks, top)
    def request_restart(self, node, idx=None):
        kd = self.kind(node)
        self.pin(node, idx)
        if kd == 'L': return
        if kd == 'O':
            if 'ortho-resolved-unmarked' not in self.dev: self.obits[node] = set(range(len(self.kids(node))))   # resolved as a whole: marked so
            for c in self.kids(node): self.request_restart(c, idx)
            return
        self.want[node] = 0; self.request_restart(self.kids(node)[0], idx)
    def request_resume(self, node, idx=None):
        kd = self.kind(node)
        self.pin(node, idx)
        if kd == 'L': return
        if kd == 'O':
            if 'ortho-resolved-unmarked' not in self.dev: self.obits[node] = set(range(len(self.kids(node))))   # resolved as a whole: marked so
            for c in self.kids(node): self.request_resume(c, idx)
            return
        w = self.res[node] if self.res[node] is not None else 0
        self.want[node] = w; self.request_resume(self.child(node, w), idx)
    def request_select(self, node, idx=None):
        kd = self.kind(node)
        self.pin(node, idx)
        if kd == 'L': return
        if kd == 'O':
            if 'ortho-resolved-unmarked' not in self.dev: self.obits[node] = set(range(len(self.kids(node))))   # resolved as a whole: marked so
            for c in self.kids(node): self.request_select(c, idx)
            return
        w = self.a_select(node); self.want[node] = w
        self.resolved(('select', node, w))
        if 'no-select-descent' not in self.dev: self.request_select(self.child(node, w), idx)
    def request_utilize(self, node, idx=None):
        kd = self.kind(node)
        self.pin(node, idx)
        if kd == 'L': return
        if kd == 'O':
            if 'ortho-resolved-unmarked' not in self.dev: self.obits[node] = set(range(len(self.kids(node))))   # resolved as a whole: marked so
            for c in self.kids(node): self.request_utilize(c, idx)
            return
        best = None; us = []
        for i, c in enumerate(self.kids(node)):
            u = self.report_utilize(c); us.append(u)
            if best is None or u > best[0]: best = (u, i)
        self.want[node] = best[1]
        self.resolved(('utility', node, best[1])); self.utility_cases.append((node, us, best[1]))
    def request_randomize(self, node, idx=None):
        kd = self.kind(node)
        self.pin(node, idx)
        if kd == 'L': return
        if kd == 'O':
            if 'ortho-resolved-unmarked' not in self.dev: self.obits[node] = set(range(len(self.kids(node))))   # resolved as a whole: marked so
            for c in self.kids(node): self.request_randomize(c, idx)
            return
        ranks, top = self.ranks(node)
        utils = [self.report_randomize(c) if ranks[i] == top else 0.0 for i, c in enumerate(self.kids(node))]
        self.want[node] = self.resolve_random(node, utils, ranks, top)
    def ranks(self, node):
        ranks = [self.a_rank(c) for c in self.kids(node)]
        return ranks, max(ranks)
    def resolve_random(self, node, utils, ranks, top):
        s = tree_sum(utils)
        r = self.ans.rng(); cursor = f32(r * s)
        last = None
        for i, u in enumerate(utils):
            if ranks[i] == top:
                if cursor >= u:
                    cursor = f32(cursor - u)
                    if u > 0: last = i
                else:
                    self.resolved(('random', node, i)); self.random_cases.append((node, list(utils), list(ranks), top, r, i))
                    return i
        self.notes.append('random-walk-fell-off')
        if 'random-none' in self.dev or last is None: return INVALID
        self.resolved(('random', node, last)); self.random_cases.append((node, list(utils), list(ranks), top, r, last))
        return last
    def wide_report_change_util(self, node):
        best = None; us = []
        for i, c in enumerate(self.kids(node)):
            u = self.report_change(c); us.append(u)
            if best is None or u > best[0]: best = (u, i)
        self.utility_cases.append((node, us, best[1]))
        return best
    def ortho_mean(self, node, fn):
        vals = [fn(c) for c in self.kids(node)]
        s = 0.0
        for v in reversed(vals): s = f32(v + s)
        return f32(s / len(vals))
    def report_change(self, node):
        kd = self.kind(node)
        if kd == 'L': return self.a_utility(node)
        sel_first = kd == 'C' and self.strat(node) == 'Selectable' and 'selectable-report-resumable' not in self.dev
        if sel_first:
            w_sel = self.a_select(node); self.resolved(('select', node, w_sel))    # select() is asked before the head's utility()
        h = self.a_utility(node)
        if kd == 'O':
            return f32(h * self.ortho_mean(node, self.report_change))
        st = self.strat(node)
        if st == 'Composite':
            self.want[node] = 0; s = self.report_change(self.kids(node)[0])
        elif st == 'Resumable' or st == 'Selectable':
            if sel_first: w = w_sel
            else: w = self.res[node] if self.res[node] is not None else 0
            self.want[node] = w; s = self.report_change(self.child(node, w))
        elif st == 'Utilitarian':
            s, p = self.wide_report_change_util(node); self.want[node] = p
            self.resolved(('utility', node, p))
        else:
            ranks, top = self.ranks(node)
            utils = [self.report_change(c) if ranks[i] == top else 0.0 for i, c in enumerate(self.kids(node))]
            w = self.resolve_random(node, utils, ranks, top); self.want[node] = w
            s = utils[w] if w != INVALID else 0.0
        return f32(h * s)
    def report_utilize(self, node):
        kd = self.kind(node)
        if kd == 'L': return self.a_utility(node)
        h = self.a_utility(node)
        if kd == 'O':
            return f32(h * self.ortho_mean(node, self.report_utilize))
        best = None; us = []
        for i, c in enumerate(self.kids(node)):
            u = self.report_utilize(c); us.append(u)
            if best is None or u > best[0]: best = (u, i)
        self.want[node] = best[1]
        self.resolved(('utility', node, best[1])); self.utility_cases.append((node, us, best[1]))
        return f32(h * best[0])
    def report_randomize(self, node):
        kd = self.kind(node)
        if kd == 'L': return self.a_utility(node)
        h = self.a_utility(node)
        if kd == 'O':
            return f32(h * self.ortho_mean(node, self.report_randomize))
        ranks, top = self.ranks(node)
        utils = [self.report_randomize(c) if ranks[i] == top else 0.0 for i, c in enumerate(self.kids(node))]
        w = self.resolve_random(node, utils, ranks, top); self.want[node] = w
        return f32(h * (utils[w] if w != INVALID else 0.0))

    # ------------------------------------------------------------------ R3: applying
    def named(self, node): return self.named_[node]
    def exit(self, node):
        kd = self.kind(node)
        self.exited_all.append(node)
        if kd == 'L':
            self.lc.append(('exit', node)); return
        if kd == 'O':
            for c in self.kids(node): self.exit(c)
            if self.named(node): self.lc.append(('exit', node))
            return
        self.exit(self.child(node, self.act[node])); self.res[node] = self.act[node]; self.act[node] = None
        if self.named(node): self.lc.append(('exit', node))
    def enter(self, node):
        kd = self.kind(node)
        if self.named(node): self.lc.append(('enter', node))
        if kd == 'L': return
        if kd == 'O':
            self.obits[node] = set()
            for c in self.kids(node): self.enter(c)
            return
        w = self.want[node]
        if w is None: w = INVALID; self.notes.append('enter-without-want')
        self.act[node] = w
        if w == self.res[node]: self.res[node] = None
        self.want[node] = None
        self.enter(self.child(node, w))
    def reenter(self, node):
        kd = self.kind(node)
        if self.named(node): self.lc.append(('reenter', node))
        if kd == 'L': return
        if kd == 'O':
            self.obits[node] = set()
            for c in self.kids(node): self.reenter(c)
            return
        w = self.want[node]
        if w is None: w = INVALID; self.notes.append('reenter-without-want')
        if self.act[node] == w: self.reenter(self.child(node, w))
        else:
            self.exit(self.child(node, self.act[node]))
            if 'reenter-switch-no-resumable' not in self.dev: self.res[node] = self.act[node]
            self.act[node] = w
            if w == self.res[node]: self.res[node] = None
            self.enter(self.child(node, w))
        self.want[node] = None
    def change_to_requested(self, node):
        kd = self.kind(node)
        if kd == 'L': return
        if kd == 'O':
            for c in self.kids(node): self.change_to_requested(c)
            return
        w = self.want[node]
        if w is None: self.change_to_requested(self.child(node, self.act[node]))
        elif w != self.act[node]:
            self.exit(self.child(node, self.act[node]))
            self.res[node] = self.act[node]; self.act[node] = w; self.want[node] = None
            self.enter(self.child(node, w))
        elif node in self.remain:
            self.exit(self.child(node, self.act[node])); self.want[node] = None; self.enter(self.child(node, w))
        else:
            self.want[node] = None; self.reenter(self.child(node, w))

    # ------------------------------------------------------------------ R4: rounds, guards, history
    def apply(self, req, idx):
        k, d = req[0], req[1]
        if k == SCHEDULE:
            par = self.n[d]['parent']
            if par >= 0 and self.kind(par) == 'C': self.res[par] = self.n[d]['prong']
        elif d == 0: self.deep_request(0, k, idx); self.claim(idx)
        else:
            self.cur_dest = d
            self.request_immediate(d); self.forward_active(0, k, idx)
            self.cur_dest = None
            self.claim(idx)
    def pending_active(self, node):
        while self.n[node]['parent'] >= 0:
            par = self.n[node]['parent']
            if self.kind(par) == 'C':
                t = self.want[par] if self.want[par] is not None else self.act[par]
                if t != self.n[node]['prong']: return False
            node = par
        return True
    def claim(self, idx):
        """sub-states picked by a select / utility / random evaluation are activated by the request as well: what it is about to enter
        and no earlier request of the step has claimed is attributed to it"""
        if idx is None or not self.on or getattr(self, 'entering', False) or 'evaluation-picks-not-attributed' in self.dev: return
        for s in range(len(self.n)):
            if s not in self.targets and not self.is_active(s) and self.pending_active(s): self.targets[s] = idx
    def enqueue(self, req):
        """request = (kind, dest, id, origin); False when the bounded queue rejects it"""
        if len(self.queue) < self.cap:
            self.queue.append(tuple(req)); return True
        self.notes.append('queue-full-rejected'); return False
    def _restore(self, backup):
        self.want = dict(backup[0]); self.obits = {k: set(v) for k, v in backup[1].items()}
        if 'veto-keeps-remain' not in self.dev: self.remain = set(backup[2])
    def _rounds(self, guards, pos, initial):
        """shared round loop of initialEnter / processTransitions.
        guards: list of guard events {'pend': [ids], 'cancel': bool, 'issue': [reqs]} in call order."""
        backup = self.snap_req(); current = []; rounds = []; tb = dict(self.targets)
        s = 0
        while s < self.limit and self.queue:
            pending = list(self.queue)
            for i, r in enumerate(pending): self.apply(r, len(current) + i)
            now = self.snap_req()
            if now[0] != backup[0] or now[1] != backup[1]:
                self.queue = []
                ids = [r[2] for r in pending]; evs = []
                full = [(r[2], r[0], r[1], r[3]) for r in pending]
                nop = [x[1:] for x in full]
                while pos < len(guards):
                    g = guards[pos]
                    if 'full' in g:
                        if g['full'] == full: pass
                        elif evs and g['full'] == [(q[2], q[0], q[1], q[3]) for e in evs for q in e['issue']][:self.cap]:
                            break    # exactly what this round's guards have issued so far: the first guard of the next round, not a payload mix-up
                        elif [x[1:] for x in g['full']] == nop and all(a[0] == b[0] or a[0] == -1 or b[0] == -1 or a[0] < b[0] for a, b in zip(g['full'], full)):
                            # same requests carrying other (older or missing) payloads: C14's business; ids only grow, so a larger id belongs to a later round
                            self.payload_mismatch.append((g['state'], g['full'], full))
                        else: break
                    elif g['pend'] != ids: break
                    evs.append(g); pos += 1
                if not evs: self.notes.append('round-without-guards')   # nothing to leave or enter: approved silently
                for e in evs:
                    for q in e['issue']: self.enqueue(q)
                vetoed = any(e['cancel'] for e in evs)
                rounds.append({'ids': ids, 'vetoed': vetoed, 'guards': evs, 'offset': len(current)})
                if not vetoed:
                    current += pending; backup = self.snap_req(); tb = dict(self.targets)
                else:
                    self._restore(backup); self.notes.append('veto'); self.targets = dict(tb)
            else:
                if now[2] != backup[2]: self.notes.append('remain-only-round')
                # a round that changes nothing pending leaves nothing behind (its 're-run in place' marks would alter how the
                # approved rounds are applied without any guard having seen the request)
                if 'noop-round-keeps-marks' not in self.dev: self._restore(backup)
                self.queue = []; self.targets = dict(tb)
            s += 1
        if self.queue: self.notes.append('leftover')
        return current, rounds, pos
    def initial_enter(self, guards):
        """first activation (constructor with automatic activation, or enter())"""
        self.on = True
        self.clear_req(); self.targets = {}
        self.request_change(0)
        pos = 0
        while pos < len(guards) and guards[pos]['pend'] == []:
            for q in guards[pos]['issue']: self.enqueue(q)
            pos += 1
        self.entering = True     # during the first activation nothing is attributed beyond what the requests pin themselves
        current, rounds, pos = self._rounds(guards, pos, True)
        self.entering = False
        self.enter(0); self.clear_req()
        self.prev = current
        if pos != len(guards): self.notes.append('guards-unconsumed')
        return rounds
    def process(self, guards):
        """update()/react()/immediate*: the queue already holds everything issued before the first guard"""
        rounds = []
        self.targets = {}
        if self.queue:
            current, rounds, pos = self._rounds(guards, 0, False)
            if current: self.change_to_requested(0)
            self.clear_req()
            if pos != len(guards): self.notes.append('guards-unconsumed')
        else:
            current = []
            if guards: self.notes.append('guards-unconsumed')
        self.prev = current
        return rounds
    def final_exit(self):
        self.exit(0); self.on = False
        for r in self.compo: self.act[r] = None; self.res[r] = None
        self.clear_req(); self.queue = []; self.prev = []; self.targets = {}
    def reset(self):
        self.exit(0)
        for r in self.compo: self.act[r] = None; self.res[r] = None
        self.clear_req(); self.prev = []; self.targets = {}
        self.request_change(0); self.enter(0); self.clear_req()
    def replay(self, reqs):
        """replayTransitions: apply without guards"""
        self.prev = []; self.targets = {}
        if not reqs: return False
        for i, r in enumerate(reqs): self.apply(r, i)
        self.prev = list(reqs)
        self.change_to_requested(0); self.clear_req()
        return True

    # ------------------------------------------------------------------ observations
    def snapshot(self):
        n = len(self.n)
        act = ['0'] * n; res = ['0'] * n; sub = ['.'] * n
        for s in range(n):
            if self.is_active(s): act[s] = '1'
            # resumable: decided by the nearest composite ancestor (states inside a resumable orthogonal sub-state count too)
            node = s
            while self.n[node]['parent'] >= 0:
                par = self.n[node]['parent']
                if self.kind(par) == 'C':
                    rr = self.res[par]
                    if rr is not None and rr != INVALID and rr == self.n[node]['prong']: res[s] = '1'
                    break
                node = par
        for r in self.compo:
            a = self.act[r] if self.is_active(r) else None
            sub[r] = '-' if a is None or a == INVALID else chr(48 + a)
        return ''.join(act), ''.join(res), ''.join(sub)
    def resync(self, act, res):
        """adopt the observed configuration after a mismatch so that one defect does not cascade"""
        self.on = act[0] == '1'
        for r in self.compo:
            a = None; rr = None
            for i, c in enumerate(self.kids(r)):
                if act[c] == '1' and a is None: a = i
                if res[c] == '1' and rr is None: rr = i
            self.act[r] = a; self.res[r] = rr
        self.clear_req()
