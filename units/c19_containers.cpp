// C19: fixed-capacity task pool and bounded arrays against ideal containers.
#define HFSM2_ENABLE_PLANS
#define HFSM2_ENABLE_SERIALIZATION
#include <hfsm2/machine.hpp>
#include <cstdio>
#include <cstdlib>
#include <cstring>
#include <map>
#include <vector>
#include <string>
#include <new>

static long g_breaks = 0; static long g_breaksFull = 0; static bool g_expectFullBreak = false;
#ifdef HFSM2_VERIF
extern "C" void hfsm2_verif_break(const char* file, int line) {
	if (g_expectFullBreak) { ++g_breaksFull; return; }		// the 'full' branch of emplace() traps by design and returns INVALID
	++g_breaks; printf("B %s %d\n", strrchr(file, '/') ? strrchr(file, '/') + 1 : file, line);
}
#endif
static unsigned long long g_checks = 0, g_distinct = 0; static int g_viol = 0;
static void V(const char* key, const std::string& detail) { if (++g_viol <= 40) printf("V %s %s\n", key, detail.c_str()); }
static uint64_t rs = 0x2545F4914F6CDD1Dull;
static uint64_t rnd() { rs ^= rs << 13; rs ^= rs >> 7; rs ^= rs << 17; return rs; }

using namespace hfsm2; using namespace hfsm2::detail;

template <typename T> struct Heap {
	void* mem; T* p;
	Heap() { mem = malloc(sizeof(T)); p = new (mem) T(); }
	~Heap() { p->~T(); free(mem); }
	T& operator*() { return *p; }
};

// ---------------------------------------------------------------------------------------------
template <typename P> struct Mk;
template <> struct Mk<void> {
	template <typename L> static Long put(L& l, int tag) { return l.emplace((StateID)(tag & 0xff), (StateID)((tag >> 8) & 0xff), TransitionType::RESUME); }
	template <typename I> static bool same(const I& it, int tag) { return it.origin == (StateID)(tag & 0xff) && it.destination == (StateID)((tag >> 8) & 0xff) && it.type == TransitionType::RESUME; }
};
template <> struct Mk<int> {
	template <typename L> static Long put(L& l, int tag) { return l.emplace((StateID)(tag & 0xff), (StateID)((tag >> 8) & 0xff), TransitionType::RESTART, tag); }
	template <typename I> static bool same(const I& it, int tag) { return it.origin == (StateID)(tag & 0xff) && it.destination == (StateID)((tag >> 8) & 0xff) && it.type == TransitionType::RESTART && it.payload() && *it.payload() == tag; }
};

template <typename P, Long CAP>
struct PoolTest {
	using L = TaskListT<P, CAP>;
	// one operation sequence: ops[i] >= 0: insert; < 0: remove the (-ops[i]-1)-th live slot (if any); 1000: clear
	static bool play(const std::vector<int>& ops, const char* what) {
		Heap<L> hl; L& l = *hl;
		std::map<Long, int> live; int tag = 1;
		auto check = [&]() -> bool {
			++g_checks;
			if (l.count() != (Long)live.size()) { V("pool|count-differs-from-live-slots", std::string(what) + " cap=" + std::to_string(CAP)); return false; }
			if (l.empty() != live.empty()) { V("pool|empty()-wrong", what); return false; }
			for (auto& kv : live) if (!Mk<P>::same(l[kv.first], kv.second)) { V("pool|live-item-lost-its-contents", std::string(what) + " cap=" + std::to_string(CAP) + " slot=" + std::to_string(kv.first)); return false; }
			return true;
		};
		for (int op : ops) {
			if (op == 1000) { l.clear(); live.clear(); }
			else if (op >= 0) {
				const bool full = live.size() == (size_t)CAP;
				g_expectFullBreak = full;
				const Long idx = Mk<P>::put(l, ++tag);
				g_expectFullBreak = false;
				if (full) { if (idx != L::INVALID) { V("pool|insert-succeeded-when-full", std::string(what) + " cap=" + std::to_string(CAP)); return false; } }
				else {
					if (idx == L::INVALID || idx >= CAP) { V("pool|insert-failed-below-capacity", std::string(what) + " cap=" + std::to_string(CAP) + " live=" + std::to_string(live.size())); return false; }
					if (live.count(idx)) { V("pool|insert-returned-a-slot-in-use", std::string(what) + " cap=" + std::to_string(CAP) + " slot=" + std::to_string(idx)); return false; }
					live[idx] = tag;
				}
			} else {
				if (live.empty()) continue;
				auto it = live.begin(); std::advance(it, (size_t)(-op - 1) % live.size());
				l.remove(it->first); live.erase(it);
			}
			if (!check()) return false;
		}
		return true;
	}
	static void exhaustive(int len) {
		// all sequences over {insert, remove-first, remove-last, remove-middle} of the given length
		std::vector<int> ops((size_t)len, 0);
		const int alpha[] = {0, -1, -1000003, -2};
		long total = 1; for (int i = 0; i < len; ++i) total *= 4;
		for (long code = 0; code < total; ++code) {
			long c = code; for (int i = 0; i < len; ++i) { ops[(size_t)i] = alpha[c % 4]; c /= 4; }
			if (!play(ops, "exhaustive")) return;
			++g_distinct;
		}
	}
	static void random(int seqs, int len) {
		for (int s = 0; s < seqs; ++s) {
			std::vector<int> ops; const int bias = (int)(rnd() % 3);
			for (int i = 0; i < len; ++i) { const uint64_t r = rnd() % 100; if (r < 2) ops.push_back(1000); else if (r < (bias == 0 ? 50u : bias == 1 ? 70u : 35u)) ops.push_back(0); else ops.push_back(-1 - (int)(rnd() % 64)); }
			if (!play(ops, "random")) return;
			++g_distinct;
		}
	}
};

// ---------------------------------------------------------------------------------------------
template <Long CAP>
static void dynArray(int seqs) {
	using A = DynamicArrayT<int, CAP>;
	for (int s = 0; s < seqs; ++s) {
		Heap<A> ha, hb; A& a = *ha; A& b = *hb; std::vector<int> ma, mb;
		for (int i = 0; i < 60; ++i) {
			switch (rnd() % 6) {
				case 0: case 1: { const int v = (int)rnd(); const auto idx = a.emplace(v); if (ma.size() < (size_t)CAP) { if ((size_t)idx != ma.size()) V("array|emplace-index-wrong", "cap=" + std::to_string(CAP)); ma.push_back(v); } else if ((Long)idx < CAP && (size_t)idx < ma.size()) V("array|emplace-when-full-returned-a-used-index", "cap=" + std::to_string(CAP)); break; }
				case 2: { const int v = (int)rnd(); b.emplace(v); if (mb.size() < (size_t)CAP) mb.push_back(v); break; }
				case 3: { a += b; for (int v : mb) if (ma.size() < (size_t)CAP) ma.push_back(v); break; }
				case 4: { if (rnd() % 4 == 0) { a.clear(); ma.clear(); } break; }
				default: { Heap<A> hc; *hc = a; A& c = *hc; ++g_checks; if ((size_t)c.count() != ma.size()) V("array|copy-count-differs", ""); for (size_t k = 0; k < ma.size() && k < (size_t)c.count(); ++k) if (c[(Long)k] != ma[k]) { V("array|copy-contents-differ", ""); break; } break; }
			}
			++g_checks;
			if ((size_t)a.count() != ma.size()) { V("array|count-differs", "cap=" + std::to_string(CAP) + " observed=" + std::to_string((long)a.count()) + " expected=" + std::to_string(ma.size())); return; }
			if (a.empty() != ma.empty()) { V("array|empty()-wrong", ""); return; }
			for (size_t k = 0; k < ma.size(); ++k) if (a[(Long)k] != ma[k]) { V("array|order-or-contents-differ", "cap=" + std::to_string(CAP) + " k=" + std::to_string(k)); return; }
			size_t n = 0; for (auto it = a.begin(); it != a.end(); ++it, ++n) if (n >= ma.size() || *it != ma[n]) { V("array|iteration-differs", ""); return; }
			if (n != ma.size()) { V("array|iteration-length-differs", ""); return; }
		}
		++g_distinct;
	}
}
template <Long CAP>
static void statArray(int seqs) {
	using A = StaticArrayT<Short, CAP>;
	for (int s = 0; s < seqs; ++s) {
		Heap<A> ha, hb; A& a = *ha; A& b = *hb; std::vector<int> ma((size_t)CAP, 0), mb((size_t)CAP, 0);
		for (int i = 0; i < 40; ++i) {
			switch (rnd() % 5) {
				case 0: { const Short f = (Short)(rnd() % 256); a.fill(f); std::fill(ma.begin(), ma.end(), (int)f); break; }
				case 1: a.clear(); std::fill(ma.begin(), ma.end(), 255); break;
				case 2: { const Long k = (Long)(rnd() % CAP); const Short v = (Short)(rnd() % 256); a[k] = v; ma[(size_t)k] = v; break; }
				case 3: { const Long k = (Long)(rnd() % CAP); const Short v = (Short)(rnd() % 256); b[k] = v; mb[(size_t)k] = v; break; }
				default: { ++g_checks; if ((a != b) != (ma != mb)) V("static-array|operator!=-differs-from-content-inequality", "cap=" + std::to_string(CAP)); break; }
			}
			++g_checks;
			bool allInvalid = true; for (int v : ma) allInvalid = allInvalid && v == 255;
			if (a.empty() != allInvalid) { V("static-array|empty()-wrong", "cap=" + std::to_string(CAP)); return; }
			for (size_t k = 0; k < ma.size(); ++k) if ((int)a[(Long)k] != ma[k]) { V("static-array|contents-differ", ""); return; }
		}
		++g_distinct;
	}
}

template <typename P> static void pools(bool thorough) {
	PoolTest<P, 1>::exhaustive(thorough ? 10 : 8); PoolTest<P, 2>::exhaustive(thorough ? 10 : 8); PoolTest<P, 3>::exhaustive(thorough ? 10 : 8);
	const int seqs = thorough ? 3000 : 300, len = thorough ? 330 : 200;
	PoolTest<P, 1>::random(seqs, len); PoolTest<P, 2>::random(seqs, len); PoolTest<P, 3>::random(seqs, len); PoolTest<P, 4>::random(seqs, len);
	PoolTest<P, 5>::random(seqs, len); PoolTest<P, 8>::random(seqs, len); PoolTest<P, 16>::random(seqs, len); PoolTest<P, 37>::random(seqs, len);
}

int main(int argc, char** argv) {
	const bool thorough = argc > 1 && !strcmp(argv[1], "thorough");
	rs ^= (argc > 2 ? strtoull(argv[2], nullptr, 10) : 0) * 0x9e3779b97f4a7c15ull + 1;
	pools<void>(thorough); pools<int>(thorough);
	const int s = thorough ? 20000 : 2000;
	dynArray<1>(s); dynArray<2>(s); dynArray<3>(s); dynArray<7>(s); dynArray<16>(s);
	statArray<1>(s); statArray<3>(s); statArray<8>(s); statArray<33>(s);
	printf("Z %llu %llu %d %ld\n", g_checks, g_distinct, g_viol, g_breaks);
	return 0;
}
