// C20: bundled generators against an independent re-implementation of splitmix32/64, xoshiro128+/256+ and xoshiro128**/256**
// (reference code by D. Blackman and S. Vigna, public domain), anchored by published splitmix64 vectors.
#define HFSM2_ENABLE_UTILITY_THEORY
#include <hfsm2/machine.hpp>
#include <cstdio>
#include <cstdlib>
#include <cstring>
#include <string>
#include <vector>

static long g_breaks = 0;
#ifdef HFSM2_VERIF
extern "C" void hfsm2_verif_break(const char* file, int line) { ++g_breaks; printf("B %s %d\n", strrchr(file, '/') ? strrchr(file, '/') + 1 : file, line); }
#endif
static unsigned long long g_checks = 0, g_distinct = 0; static int g_viol = 0;
static void V(const char* key, const std::string& detail) { if (++g_viol <= 40) printf("V %s %s\n", key, detail.c_str()); }

// ---------------------------------------------------------------- reference implementations
namespace ref {
static inline uint64_t rotl64(uint64_t x, int k) { return (x << k) | (x >> (64 - k)); }
static inline uint32_t rotl32(uint32_t x, int k) { return (x << k) | (x >> (32 - k)); }
struct SplitMix64 { uint64_t x; uint64_t next() { uint64_t z = (x += UINT64_C(0x9E3779B97F4A7C15)); z = (z ^ (z >> 30)) * UINT64_C(0xBF58476D1CE4E5B9); z = (z ^ (z >> 27)) * UINT64_C(0x94D049BB133111EB); return z ^ (z >> 31); }
	uint64_t nextNonZero() { for (;;) { const uint64_t v = next(); if (v) return v; } } };
struct SplitMix32 { uint32_t x; uint32_t next() { uint32_t z = (x += 0x9e3779b9u); z = (z ^ (z >> 16)) * 0x85ebca6bu; z = (z ^ (z >> 13)) * 0xc2b2ae35u; return z ^ (z >> 16); }
	uint32_t nextNonZero() { for (;;) { const uint32_t v = next(); if (v) return v; } } };
struct X256 { uint64_t s[4];
	void advance() { const uint64_t t = s[1] << 17; s[2] ^= s[0]; s[3] ^= s[1]; s[1] ^= s[2]; s[0] ^= s[3]; s[2] ^= t; s[3] = rotl64(s[3], 45); }
	uint64_t plus() { const uint64_t r = s[0] + s[3]; advance(); return r; }
	uint64_t starstar() { const uint64_t r = rotl64(s[1] * 5, 7) * 9; advance(); return r; }
	void jump() { static const uint64_t J[] = { UINT64_C(0x180ec6d33cfd0aba), UINT64_C(0xd5a61266f0c9392c), UINT64_C(0xa9582618e03fc9aa), UINT64_C(0x39abdc4529b1661c) };
		uint64_t a = 0, b = 0, c = 0, d = 0;
		for (int i = 0; i < 4; ++i) for (int k = 0; k < 64; ++k) { if (J[i] & (UINT64_C(1) << k)) { a ^= s[0]; b ^= s[1]; c ^= s[2]; d ^= s[3]; } advance(); }
		s[0] = a; s[1] = b; s[2] = c; s[3] = d; } };
struct X128 { uint32_t s[4];
	void advance() { const uint32_t t = s[1] << 9; s[2] ^= s[0]; s[3] ^= s[1]; s[1] ^= s[2]; s[0] ^= s[3]; s[2] ^= t; s[3] = rotl32(s[3], 11); }
	uint32_t plus() { const uint32_t r = s[0] + s[3]; advance(); return r; }
	uint32_t starstar() { const uint32_t r = rotl32(s[1] * 5, 7) * 9; advance(); return r; }
	void jump() { static const uint32_t J[] = { 0x8764000bu, 0xf542d2d3u, 0x6fa035c3u, 0x77f2db5bu };
		uint32_t a = 0, b = 0, c = 0, d = 0;
		for (int i = 0; i < 4; ++i) for (int k = 0; k < 32; ++k) { if (J[i] & (UINT32_C(1) << k)) { a ^= s[0]; b ^= s[1]; c ^= s[2]; d ^= s[3]; } advance(); }
		s[0] = a; s[1] = b; s[2] = c; s[3] = d; } };
static inline float uni32(uint32_t u) { const uint32_t bits = (UINT32_C(0x7F) << 23) | (u >> 9); float f; memcpy(&f, &bits, 4); return f - 1.0f; }
static inline double uni64(uint64_t u) { const uint64_t bits = (UINT64_C(0x3FF) << 52) | (u >> 12); double d; memcpy(&d, &bits, 8); return d - 1.0; }
}

using namespace hfsm2; using namespace hfsm2::detail;
static uint64_t rs = 0x9E3779B97F4A7C15ull;
static uint64_t rnd() { rs ^= rs << 13; rs ^= rs >> 7; rs ^= rs << 17; return rs; }

static unsigned long long g_convSame = 0, g_convOther = 0;	// float conversions equal to / different from the usual exponent-trick formula: reported, not judged
// modular inverses of 5 and 9 (the ** scrambler is rotl(s1 * 5, 7) * 9)
static inline uint64_t rotr64(uint64_t x, int k) { return (x >> k) | (x << (64 - k)); }
static inline uint32_t rotr32(uint32_t x, int k) { return (x >> k) | (x << (32 - k)); }
// every float or double lies in [0,1): crafted states whose next raw output is an extreme value (all ones, just below, powers of two, ...)
static void extremes() {
	std::vector<uint64_t> t64; std::vector<uint32_t> t32;
	for (int k = 0; k < 64; ++k) { t64.push_back(UINT64_C(1) << k); t64.push_back((UINT64_C(1) << k) - 1); t64.push_back(~(UINT64_C(1) << k)); t64.push_back(~UINT64_C(0) << k); }
	for (uint64_t j = 0; j < 4100; ++j) t64.push_back(~UINT64_C(0) - j);
	for (int i = 0; i < 2000; ++i) { t64.push_back(rnd()); t64.push_back(rnd() | (~UINT64_C(0) << (10 + i % 50))); }
	for (int k = 0; k < 32; ++k) { t32.push_back(UINT32_C(1) << k); t32.push_back((UINT32_C(1) << k) - 1); t32.push_back(~(UINT32_C(1) << k)); t32.push_back(~UINT32_C(0) << k); }
	for (uint32_t j = 0; j < 1100; ++j) t32.push_back(~UINT32_C(0) - j);
	for (int i = 0; i < 2000; ++i) { t32.push_back((uint32_t)rnd()); t32.push_back((uint32_t)rnd() | (~UINT32_C(0) << (5 + i % 26))); }
	const uint64_t inv5 = UINT64_C(0xCCCCCCCCCCCCCCCD), inv9 = UINT64_C(0x8E38E38E38E38E39);
	const uint32_t inv5s = 0xCCCCCCCDu, inv9s = 0x38E38E39u;
	if (inv5 * 5 != 1 || inv9 * 9 != 1 || (uint32_t)(inv5s * 5u) != 1u || (uint32_t)(inv9s * 9u) != 1u) { V("anchor|modular-inverse-wrong", ""); return; }
	for (uint64_t T : t64) {
		++g_distinct;
		{ const uint64_t st[4] = { T, 1, 0, 0 }; FloatRandomT<8> g{st}; FloatRandomT<8> g2{st}; FloatRandomT<8> g3{st};
		  ++g_checks; if (g3.uint64() != T) { V("anchor|crafted-state-does-not-produce-the-target", "xoshiro256+"); return; }
		  const double d = g.float64(); if (!(d >= 0.0 && d < 1.0)) V("range|float64-outside-[0,1)", "xoshiro256+ raw=" + std::to_string(T) + " value=" + std::to_string(d));
		  const float f = g2.float32(); if (!(f >= 0.0f && f < 1.0f)) V("range|float32-outside-[0,1)", "xoshiro256+ raw=" + std::to_string(T) + " value=" + std::to_string(f)); }
		{ const uint64_t s1 = rotr64(T * inv9, 7) * inv5; const uint64_t st[4] = { 1, s1, 0, 0 }; IntRandomT<8> g{st}; IntRandomT<8> g2{st}; IntRandomT<8> g3{st};
		  ++g_checks; if (g3.uint64() != T) { V("anchor|crafted-state-does-not-produce-the-target", "xoshiro256**"); return; }
		  const double d = g.float64(); if (!(d >= 0.0 && d < 1.0)) V("range|float64-outside-[0,1)", "xoshiro256** raw=" + std::to_string(T) + " value=" + std::to_string(d));
		  const float f = g2.float32(); if (!(f >= 0.0f && f < 1.0f)) V("range|float32-outside-[0,1)", "xoshiro256** raw=" + std::to_string(T) + " value=" + std::to_string(f)); }
	}
	for (uint32_t T : t32) {
		++g_distinct;
		{ const uint32_t st[4] = { T, 1, 0, 0 }; FloatRandomT<4> g{st}; FloatRandomT<4> g3{st};
		  ++g_checks; if (g3.uint32() != T) { V("anchor|crafted-state-does-not-produce-the-target", "xoshiro128+"); return; }
		  const float f = g.float32(); if (!(f >= 0.0f && f < 1.0f)) V("range|float32-outside-[0,1)", "xoshiro128+ raw=" + std::to_string(T) + " value=" + std::to_string(f)); }
		{ const uint32_t s1 = rotr32(T * inv9s, 7) * inv5s; const uint32_t st[4] = { 1, s1, 0, 0 }; IntRandomT<4> g{st}; IntRandomT<4> g3{st};
		  ++g_checks; if (g3.uint32() != T) { V("anchor|crafted-state-does-not-produce-the-target", "xoshiro128**"); return; }
		  const float f = g.float32(); if (!(f >= 0.0f && f < 1.0f)) V("range|float32-outside-[0,1)", "xoshiro128** raw=" + std::to_string(T) + " value=" + std::to_string(f)); }
		// float64() of the 32-bit variants combines two raw outputs: both crafted extreme
		{ const uint32_t st[4] = { T, 1, 0, 0 }; FloatRandomT<4> g{st}; const double d = g.float64(); ++g_checks; if (!(d >= 0.0 && d < 1.0)) V("range|float64-outside-[0,1)", "xoshiro128+ first raw=" + std::to_string(T) + " value=" + std::to_string(d)); }
	}
}
static void seed64(uint64_t seed, int outputs) {
	++g_distinct;
	{ SimpleRandomT<8> a{seed}; ref::SplitMix64 r{seed}; for (int i = 0; i < 16; ++i) { ++g_checks; if (a.raw64() != r.next()) { V("splitmix64|raw-sequence-differs-from-reference", "seed=" + std::to_string(seed)); break; } } }
	{ SimpleRandomT<8> a{seed}; ref::SplitMix64 r{seed}; for (int i = 0; i < 16; ++i) { const uint64_t v = a.uint64(); ++g_checks; if (v == 0) V("splitmix64|seeding-routine-returned-zero", "seed=" + std::to_string(seed)); if (v != r.nextNonZero()) { V("splitmix64|non-zero-sequence-differs", "seed=" + std::to_string(seed)); break; } } }
	ref::SplitMix64 sm{seed}; ref::X256 rp; for (int i = 0; i < 4; ++i) rp.s[i] = sm.nextNonZero(); ref::X256 rss = rp;
	FloatRandomT<8> fp{seed}; IntRandomT<8> ip{seed}; FloatRandomT<8> fp2{seed};
	for (int i = 0; i < outputs; ++i) {
		const uint64_t a = fp.uint64(), e = rp.plus(); ++g_checks;
		if (a != e) { V("xoshiro256+|sequence-differs-from-reference", "seed=" + std::to_string(seed) + " position=" + std::to_string(i)); break; }
		if (fp2.uint64() != a) { V("determinism|equal-seeds-diverge", "seed=" + std::to_string(seed)); break; }
		const uint64_t b = ip.uint64(), f = rss.starstar(); ++g_checks;
		if (b != f) { V("xoshiro256**|sequence-differs-from-reference", "seed=" + std::to_string(seed) + " position=" + std::to_string(i)); break; }
	}
	{ FloatRandomT<8> g{seed}; ref::SplitMix64 s2{seed}; ref::X256 r; for (int i = 0; i < 4; ++i) r.s[i] = s2.nextNonZero();
		for (int i = 0; i < 64; ++i) { const double d = g.float64(); const double e = ref::uni64(r.plus()); ++g_checks; if (!(d >= 0.0 && d < 1.0)) V("range|float64-outside-[0,1)", std::to_string(d)); if (d == e) ++g_convSame; else ++g_convOther; }
		for (int i = 0; i < 64; ++i) { const float d = g.float32(); const float e = ref::uni32((uint32_t)r.plus()); ++g_checks; if (!(d >= 0.0f && d < 1.0f)) V("range|float32-outside-[0,1)", std::to_string(d)); if (d == e) ++g_convSame; else ++g_convOther; if (g.next() < 0.0f) V("range|next", ""); r.plus(); }
		g.jump(); r.jump(); for (int i = 0; i < 8; ++i) { ++g_checks; if (g.uint64() != r.plus()) { V("xoshiro256+|jump-differs-from-reference", "seed=" + std::to_string(seed)); break; } }
		IntRandomT<8> h{seed}; ref::SplitMix64 s3{seed}; ref::X256 q; for (int i = 0; i < 4; ++i) q.s[i] = s3.nextNonZero();
		h.jump(); q.jump(); for (int i = 0; i < 8; ++i) { ++g_checks; if (h.uint64() != q.starstar()) { V("xoshiro256**|jump-differs-from-reference", "seed=" + std::to_string(seed)); break; } } }
}
static void seed32(uint32_t seed, int outputs) {
	++g_distinct;
	{ SimpleRandomT<4> a{seed}; ref::SplitMix32 r{seed}; for (int i = 0; i < 16; ++i) { ++g_checks; if (a.raw32() != r.next()) { V("splitmix32|raw-sequence-differs-from-reference", "seed=" + std::to_string(seed)); break; } } }
	{ SimpleRandomT<4> a{seed}; ref::SplitMix32 r{seed}; for (int i = 0; i < 16; ++i) { const uint32_t v = a.uint32(); ++g_checks; if (v == 0) V("splitmix32|seeding-routine-returned-zero", "seed=" + std::to_string(seed)); if (v != r.nextNonZero()) { V("splitmix32|non-zero-sequence-differs", "seed=" + std::to_string(seed)); break; } } }
	ref::SplitMix32 sm{seed}; ref::X128 rp; for (int i = 0; i < 4; ++i) rp.s[i] = sm.nextNonZero(); ref::X128 rss = rp;
	FloatRandomT<4> fp{seed}; IntRandomT<4> ip{seed};
	for (int i = 0; i < outputs; ++i) {
		++g_checks; if (fp.uint32() != rp.plus()) { V("xoshiro128+|sequence-differs-from-reference", "seed=" + std::to_string(seed) + " position=" + std::to_string(i)); break; }
		++g_checks; if (ip.uint32() != rss.starstar()) { V("xoshiro128**|sequence-differs-from-reference", "seed=" + std::to_string(seed) + " position=" + std::to_string(i)); break; }
	}
	{ FloatRandomT<4> g{seed}; ref::SplitMix32 s2{seed}; ref::X128 r; for (int i = 0; i < 4; ++i) r.s[i] = s2.nextNonZero();
		for (int i = 0; i < 64; ++i) { const float d = g.float32(); ++g_checks; if (!(d >= 0.0f && d < 1.0f)) V("range|float32-outside-[0,1)", std::to_string(d)); if (d == ref::uni32(r.plus())) ++g_convSame; else ++g_convOther; }
		for (int i = 0; i < 16; ++i) { const double d = g.float64(); ++g_checks; if (!(d >= 0.0 && d < 1.0)) V("range|float64-outside-[0,1)", std::to_string(d)); r.plus(); r.plus(); }
		g.jump(); r.jump(); for (int i = 0; i < 8; ++i) { ++g_checks; if (g.uint32() != r.plus()) { V("xoshiro128+|jump-differs-from-reference", "seed=" + std::to_string(seed)); break; } }
		IntRandomT<4> h{seed}; ref::SplitMix32 s3{seed}; ref::X128 q; for (int i = 0; i < 4; ++i) q.s[i] = s3.nextNonZero();
		h.jump(); q.jump(); for (int i = 0; i < 8; ++i) { ++g_checks; if (h.uint32() != q.starstar()) { V("xoshiro128**|jump-differs-from-reference", "seed=" + std::to_string(seed)); break; } } }
}

// ---------------------------------------------------------------- machines that own their generator
// "A machine using the built-in generator makes the same random choices on every run": fresh instances agree, and a copy / a moved-to
// instance carries on exactly where a fresh instance would be after the same number of steps - also once the source object is gone
// (sources live in exact-size heap blocks that are poisoned and freed, so a generator left behind in the source is a sanitizer report
// or a diverging sequence).
namespace mach {
template <typename TM>
struct Fix {
	struct A; struct B; struct C; struct D; struct E; struct F;
	using FSM = typename TM::template RandomPeerRoot<A, B, typename TM::template Random<C, D, E, F>>;
	struct A : FSM::State {}; struct B : FSM::State {};
	struct C : FSM::State {}; struct D : FSM::State {}; struct E : FSM::State {}; struct F : FSM::State {};
	using Instance = typename FSM::Instance;
	static int step(Instance& m) {
		m.randomize(hfsm2::StateID{0}); m.update();
		int code = 0;
		for (int s = 1; s < (int)FSM::STATE_COUNT; ++s) if (m.isActive((hfsm2::StateID)s)) code = code * 8 + s;
		return code;
	}
};
template <typename TM, typename... TArgs>
static void run(const char* what, int rounds, TArgs&&... args) {
	using X = Fix<TM>; using I = typename X::Instance;
	for (int r = 0; r < rounds; ++r) {
		const int n = 1 + (int)(rnd() % 40), m = 8 + (int)(rnd() % 40);
		// reference: one fresh instance stepped n + m times
		std::vector<int> refSeq; { I f{args...}; for (int i = 0; i < n + m; ++i) refSeq.push_back(X::step(f)); }
		{ I f2{args...}; for (int i = 0; i < n + m; ++i) { ++g_checks; if (X::step(f2) != refSeq[(size_t)i]) { V("machine|fresh-instances-make-different-random-choices", what); return; } } }
		for (int mode = 0; mode < 2; ++mode) {		// 0 copy, 1 move
			void* mem = malloc(sizeof(I)); I* src = new (mem) I{args...};
			bool ok = true;
			for (int i = 0; i < n; ++i) if (X::step(*src) != refSeq[(size_t)i]) ok = false;
			void* mem2 = malloc(sizeof(I));
			I* dst = mode == 0 ? new (mem2) I{*src} : new (mem2) I{static_cast<I&&>(*src)};
			if (mode == 0 && (r & 1)) { for (int i = 0; i < m; ++i) if (X::step(*src) != refSeq[(size_t)(n + i)]) { V("machine|original-disturbed-by-its-copy", what); ok = false; break; } }
			src->~I(); memset(mem, 0xDD, sizeof(I)); free(mem);
			for (int i = 0; i < m && ok; ++i) { ++g_checks; if (X::step(*dst) != refSeq[(size_t)(n + i)]) { V(mode == 0 ? "machine|copy-does-not-continue-the-random-sequence" : "machine|moved-to-instance-does-not-continue-the-random-sequence", std::string(what) + " after " + std::to_string(n) + "+" + std::to_string(i) + " steps"); ok = false; } }
			// a copy of the copy / moved-to instance starts from its generator, not from a stale one
			if (ok) { I third{*dst}; I fresh{args...}; for (int i = 0; i < n + m; ++i) X::step(fresh); for (int i = 0; i < 8; ++i) { ++g_checks; if (X::step(third) != X::step(fresh)) { V("machine|copy-of-a-copied-or-moved-instance-diverges", what); break; } } }
			dst->~I(); memset(mem2, 0xDD, sizeof(I)); free(mem2);
			++g_distinct;
		}
	}
}
}

int main(int argc, char** argv) {
	const bool thorough = argc > 1 && !strcmp(argv[1], "thorough");
	rs ^= (argc > 2 ? strtoull(argv[2], nullptr, 10) : 0) * 0xD1342543DE82EF95ull + 1;
	// anchors: published SplitMix64 output for seed 1234567
	{ ref::SplitMix64 r{1234567}; const uint64_t e[] = { UINT64_C(6457827717110365317), UINT64_C(3203168211198807973), UINT64_C(9817491932198370423), UINT64_C(4593380528125082431), UINT64_C(16408922859458223821) };
	  SimpleRandomT<8> a{1234567};
	  for (int i = 0; i < 5; ++i) { const uint64_t v = r.next(); ++g_checks; if (v != e[i]) V("anchor|reference-implementation-does-not-reproduce-the-published-vector", std::to_string(i)); if (a.raw64() != e[i]) V("splitmix64|published-vector-not-reproduced", std::to_string(i)); } }
	const int outs = thorough ? 10000 : 600;
	// edge seeds: 0, 1, 2^k +- 1, and -k*gamma (the k-th raw output of splitmix is then mix(0) = 0: exercises the rejection loop)
	seed64(0, outs); seed64(1, outs); seed32(0, outs); seed32(1, outs);
	for (int k = 1; k < 64; ++k) { seed64((UINT64_C(1) << k) - 1, 64); seed64((UINT64_C(1) << k) + 1, 64); }
	for (int k = 1; k < 32; ++k) { seed32((UINT32_C(1) << k) - 1, 64); seed32((UINT32_C(1) << k) + 1, 64); }
	for (uint64_t k = 1; k <= 4; ++k) { seed64((uint64_t)0 - k * UINT64_C(0x9E3779B97F4A7C15), outs); seed32((uint32_t)0 - (uint32_t)k * 0x9e3779b9u, outs); }
	// generators constructed without a seed: still a proper generator (an all-zero xoshiro state never leaves zero), equal to any
	// other default-constructed one
	{
#define DEFAULT_GEN(T, call, what) { T a; T b; bool allZero = true, same = true; for (int i = 0; i < 16; ++i) { const auto x = a.call(); if (x != 0) allZero = false; if (x != b.call()) same = false; } ++g_checks; \
		if (allZero) V("default|default-constructed-generator-yields-only-zeros", what); if (!same) V("determinism|default-constructed-generators-diverge", what); }
		DEFAULT_GEN(FloatRandomT<8>, uint64, "xoshiro256+") DEFAULT_GEN(IntRandomT<8>, uint64, "xoshiro256**") DEFAULT_GEN(FloatRandomT<4>, uint32, "xoshiro128+") DEFAULT_GEN(IntRandomT<4>, uint32, "xoshiro128**")
		DEFAULT_GEN(SimpleRandomT<8>, uint64, "splitmix64") DEFAULT_GEN(SimpleRandomT<4>, uint32, "splitmix32")
#undef DEFAULT_GEN
		{ FloatRandomT<4> g; for (int i = 0; i < 8; ++i) { const float f = g.float32(); ++g_checks; if (!(f >= 0.0f && f < 1.0f)) V("range|float32-outside-[0,1)", "default-constructed xoshiro128+"); } g.jump(); bool z = true; for (int i = 0; i < 8; ++i) if (g.uint32()) z = false; if (z) V("default|default-constructed-generator-yields-only-zeros", "xoshiro128+ after jump()"); }
		{ IntRandomT<8> g; g.jump(); bool z = true; for (int i = 0; i < 8; ++i) if (g.uint64()) z = false; if (z) V("default|default-constructed-generator-yields-only-zeros", "xoshiro256** after jump()"); }
	}
	extremes();
	const int n = thorough ? 100000 : 4000;
	for (int i = 0; i < n; ++i) { seed64(rnd(), 24); seed32((uint32_t)rnd(), 24); }
	if (thorough) {
		// every 32-bit seed of the 32-bit seeding routine: no zero word, matches the reference
		for (uint64_t s = 0; s <= 0xffffffffull; ++s) { SimpleRandomT<4> a{(uint32_t)s}; ref::SplitMix32 r{(uint32_t)s}; const uint32_t v = a.uint32(); ++g_checks; if (v == 0 || v != r.nextNonZero()) { V("splitmix32|exhaustive-seed-sweep-mismatch", std::to_string(s)); break; } }
		printf("X exhaustive-32bit-seed-sweep 4294967296\n");
	}
	// uniform(): 0, all ones, random words
	{ const uint32_t w32[] = { 0u, 0xffffffffu, 0x1ffu, 0x200u, 0x80000000u }; for (uint32_t w : w32) { const float f = uniform(w); ++g_checks; if (!(f >= 0.0f && f < 1.0f)) V("uniform|float-outside-[0,1)", std::to_string(w)); }
	  const uint64_t w64[] = { 0ull, ~0ull, 0xfffull, 0x1000ull, 1ull << 63 }; for (uint64_t w : w64) { const double d = uniform(w); ++g_checks; if (!(d >= 0.0 && d < 1.0)) V("uniform|double-outside-[0,1)", std::to_string(w)); }
	  const long m = thorough ? 10000000 : 500000;
	  for (long i = 0; i < m; ++i) { const uint64_t w = rnd(); const float f = uniform((uint32_t)w); const double d = uniform(w); g_checks += 2; if (!(f >= 0.0f && f < 1.0f) || !(d >= 0.0 && d < 1.0)) { V("uniform|value-outside-[0,1)", std::to_string(w)); break; } } }
	// RNGT<float> as used by a machine: same seed, same stream
	{ hfsm2::RNGT<float> a{0}, b{0}; hfsm2::RNGT<float> c{77}, d{77};
	  for (int i = 0; i < 1000; ++i) { const float x = a.next(); ++g_checks; if (x != b.next()) { V("determinism|RNGT-equal-seeds-diverge", ""); break; } if (!(x >= 0.0f && x < 1.0f)) V("range|RNGT-outside-[0,1)", ""); if (c.next() != d.next()) { V("determinism|RNGT-equal-seeds-diverge", ""); break; } } }
	{ static int ctxValue = 5; int* ctxPtr = &ctxValue;
	  mach::run<hfsm2::Machine>("no context", thorough ? 400 : 60);
	  mach::run<hfsm2::MachineT<hfsm2::Config::ContextT<int*>>>("pointer context", thorough ? 400 : 60, ctxPtr); }
	printf("X float-conversions-equal-to-the-exponent-trick-formula %llu other %llu (reported, not judged)\n", g_convSame, g_convOther);
	printf("Z %llu %llu %d %ld\n", g_checks, g_distinct, g_viol, g_breaks);
	return 0;
}
