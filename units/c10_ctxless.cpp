// C10 for the instance flavours the shape harness cannot instantiate (it needs a reference context to find its probe): machines
// without a context, with a pointer context and with a value context, all owning the built-in generator. Behaviour must not
// depend on what the storage held before construction (the first activation runs inside the constructor and may already draw),
// on the address, on other instances; a copy / a moved-to instance continues exactly as the original would.
#define HFSM2_ENABLE_UTILITY_THEORY
#define HFSM2_ENABLE_PLANS
#define HFSM2_ENABLE_TRANSITION_HISTORY
#define HFSM2_ENABLE_STRUCTURE_REPORT
#include <hfsm2/machine.hpp>
#include <cstdio>
#include <cstdlib>
#include <cstring>
#include <string>
#include <vector>

static long g_breaks = 0;
#ifdef HFSM2_VERIF
extern "C" void hfsm2_verif_break(const char* file, int line) { ++g_breaks; printf("B %s %d\n", strrchr(file, '/') ? strrchr(file, '/') + 1 : file, line); }
#endif
static unsigned long long g_checks = 0, g_distinct = 0; static int g_viol = 0;
static void V(const char* key, const std::string& detail) { if (++g_viol <= 40) printf("V %s %s\n", key, detail.c_str()); }
static uint64_t rs = 0x9E3779B97F4A7C15ull;
static uint64_t rnd() { rs ^= rs << 13; rs ^= rs >> 7; rs ^= rs << 17; return rs; }

struct Ctx { int tag; };

template <typename TM>
struct Fix {
	struct A; struct B; struct C; struct D; struct E; struct F; struct G; struct H;
	// random root: the first activation (inside the constructor) already draws; a nested random region and a utilitarian one below
	using FSM = typename TM::template RandomPeerRoot<A, typename TM::template Random<B, C, D, E>, typename TM::template Utilitarian<F, G, H>>;
	struct A : FSM::State {}; struct B : FSM::State {}; struct C : FSM::State {}; struct D : FSM::State {}; struct E : FSM::State {};
	struct F : FSM::State {}; struct H : FSM::State {}; struct G : FSM::State { typename FSM::State::Utility utility(const typename FSM::State::Control&) { return 0.5f; } };
	using Instance = typename FSM::Instance;
	static int config(const Instance& m) {
		int code = 0;
		for (int s = 1; s < (int)FSM::STATE_COUNT; ++s) if (m.isActive((hfsm2::StateID)s)) code = code * 16 + s;
		return code;
	}
	// what a user prints from structure(): prefix and name of every entry, plus the activity flags
	static std::string report(const Instance& m) {
		std::string out; const auto& st = m.structure();
		for (unsigned i = 0; i < st.count(); ++i) { for (const wchar_t* p = st[i].prefix; p && *p; ++p) out += std::to_string((long)*p) + ","; out += st[i].name ? st[i].name : "?"; out += st[i].isActive ? "+;" : "-;"; }
		return out;
	}
	static int step(Instance& m, int k) {
		switch (k % 4) { case 0: m.randomize(hfsm2::StateID{0}); break; case 1: m.changeTo((hfsm2::StateID)(1 + k % ((int)FSM::STATE_COUNT - 1))); break; case 2: m.utilize(hfsm2::StateID{0}); break; default: m.randomize((hfsm2::StateID)(1 + k % ((int)FSM::STATE_COUNT - 1))); break; }
		m.update();
		return config(m);
	}
};

static void fill(void* mem, size_t n, int pattern) {
	unsigned char* b = (unsigned char*)mem;
	switch (pattern) {
		case 0: memset(b, 0x00, n); break; case 1: memset(b, 0xFF, n); break; case 2: memset(b, 0xA5, n); break; case 3: memset(b, 0x55, n); break;
		default: { uint64_t z = 0x1234u + (uint64_t)pattern; for (size_t i = 0; i < n; ++i) { z = z * 6364136223846793005ull + 1442695040888963407ull; b[i] = (unsigned char)(z >> 33); } }
	}
}

template <typename TM, typename... TArgs>
static void run(const char* what, int rounds, TArgs... args) {
	using X = Fix<TM>; using I = typename X::Instance;
	for (int r = 0; r < rounds; ++r) {
		const int n = 1 + (int)(rnd() % 30), m = 6 + (int)(rnd() % 30);
		// reference run in zeroed storage
		std::vector<int> refSeq; int refInitial;
		{ void* mem = malloc(sizeof(I) + 64); fill(mem, sizeof(I) + 64, 0); I* f = new ((char*)mem) I{args...}; refInitial = X::config(*f); for (int i = 0; i < n + m; ++i) refSeq.push_back(X::step(*f, i)); f->~I(); free(mem); }
		// prior storage content and address
		for (int pattern = 1; pattern < 8; ++pattern) {
			const size_t off = (size_t)(pattern % 4) * 16;
			void* mem = malloc(sizeof(I) + 64); fill(mem, sizeof(I) + 64, pattern);
			I* f = new ((char*)mem + off) I{args...};
			++g_checks;
			if (X::config(*f) != refInitial) { V("prefill|first-activation-depends-on-prior-storage-content", std::string(what) + " pattern=" + std::to_string(pattern)); f->~I(); free(mem); return; }
			for (int i = 0; i < n + m; ++i) { ++g_checks; if (X::step(*f, i) != refSeq[(size_t)i]) { V("prefill|behaviour-depends-on-prior-storage-content-or-address", std::string(what) + " pattern=" + std::to_string(pattern) + " step=" + std::to_string(i)); f->~I(); free(mem); return; } }
			f->~I(); free(mem);
		}
		// two instances side by side do not influence each other
		{ I a{args...}, b{args...}; for (int i = 0; i < n + m; ++i) { const int x = X::step(a, i); if (i % 3 == 0) { ++g_checks; if (x != refSeq[(size_t)i]) { V("isolation|instance-influenced-by-another", what); break; } } if (i < n) X::step(b, i + 7); } }
		// copy / move: continue as the original would, also after the original is gone
		for (int mode = 0; mode < 2; ++mode) {
			void* mem = malloc(sizeof(I)); fill(mem, sizeof(I), 4 + r); I* src = new (mem) I{args...};
			bool ok = true;
			for (int i = 0; i < n; ++i) if (X::step(*src, i) != refSeq[(size_t)i]) ok = false;
			void* mem2 = malloc(sizeof(I)); fill(mem2, sizeof(I), 9 + r);
			I* dst = mode == 0 ? new (mem2) I{*src} : new (mem2) I{static_cast<I&&>(*src)};
			if (mode == 0 && (r & 1)) { for (int i = 0; i < m; ++i) if (X::step(*src, n + i) != refSeq[(size_t)(n + i)]) { V("copy|original-disturbed-by-its-copy", what); ok = false; break; } }
			src->~I(); memset(mem, 0xDD, sizeof(I)); free(mem);
			// the copy's structure report is its own (same text as a fresh instance in the same configuration shows), also with the source gone
			{ I fresh{args...}; for (int i = 0; i < n; ++i) X::step(fresh, i); ++g_checks; if (ok && X::report(*dst) != X::report(fresh)) { V(mode == 0 ? "copy|structure-report-of-the-copy-differs" : "move|structure-report-of-the-moved-to-instance-differs", what); ok = false; } }
			for (int i = 0; i < m && ok; ++i) { ++g_checks; if (X::step(*dst, n + i) != refSeq[(size_t)(n + i)]) { V(mode == 0 ? "copy|copy-does-not-continue-as-the-original-would" : "move|moved-to-instance-does-not-continue-as-the-original-would", std::string(what) + " after " + std::to_string(n) + "+" + std::to_string(i) + " steps"); ok = false; } }
			dst->~I(); memset(mem2, 0xDD, sizeof(I)); free(mem2);
			++g_distinct;
		}
	}
}

int main(int argc, char** argv) {
	const bool thorough = argc > 1 && !strcmp(argv[1], "thorough");
	rs ^= (argc > 2 ? strtoull(argv[2], nullptr, 10) : 0) * 0xD1342543DE82EF95ull + 1;
	const int rounds = thorough ? 300 : 40;
	static Ctx ctx{7}; Ctx* ctxPtr = &ctx;
	run<hfsm2::Machine>("no context", rounds);
	run<hfsm2::MachineT<hfsm2::Config::ContextT<Ctx*>>>("pointer context", rounds, ctxPtr);
	run<hfsm2::MachineT<hfsm2::Config::ContextT<Ctx>>>("value context", rounds, ctx);
	run<hfsm2::MachineT<hfsm2::Config::ContextT<Ctx*>::PayloadT<int>>>("pointer context, int payload", rounds, ctxPtr);
	printf("Z %llu %llu %d %ld\n", g_checks, g_distinct, g_viol, g_breaks);
	return 0;
}
