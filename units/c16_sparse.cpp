// C16 for states that override only SOME methods (the shape harness' states override nearly all of them): every state of the machine
// below defines its own subset of the 17 callbacks, chosen per (family, state) from a hash, by stacking one mixin per method. Each
// callback that really runs appends (state, method) to g_real; the attached logger appends what recordMethod() is told to g_logged.
//   interface logging (default build)         : the logger's sequence equals the sequence of callbacks really run
//   verbose logging (-DHFSM2_ENABLE_VERBOSE_DEBUG_LOG): the logger's sequence restricted to overridden (state, method) pairs equals it
// Records for react-type methods (preReact / react / postReact / query) of states that do NOT override them are dropped before the
// comparison: the unchanged library reports those in interface mode (the method pointer is cast to the state's own type first), and
// no user-defined callback stands behind them, so the property does not decide them either way.
#define HFSM2_ENABLE_LOG_INTERFACE
#define HFSM2_ENABLE_PLANS
#define HFSM2_ENABLE_UTILITY_THEORY
#include <hfsm2/machine.hpp>
#include <cstdio>
#include <cstdlib>
#include <cstring>
#include <set>
#include <string>
#include <vector>

static long g_breaks = 0;
#ifdef HFSM2_VERIF
extern "C" void hfsm2_verif_break(const char* file, int line) { ++g_breaks; printf("B %s %d\n", strrchr(file, '/') ? strrchr(file, '/') + 1 : file, line); }
#endif
static unsigned long long g_checks = 0; static int g_viol = 0;
static void V(const char* key, const std::string& detail) { if (++g_viol <= 40) printf("V %s %s\n", key, detail.c_str()); }
static uint64_t rs = 0x9E3779B97F4A7C15ull;
static uint64_t rnd() { rs ^= rs << 13; rs ^= rs >> 7; rs ^= rs << 17; return rs; }

using hfsm2::Method;
struct Call { int state; Method method; bool operator == (const Call& o) const { return state == o.state && method == o.method; } };
static std::vector<Call> g_real, g_logged;
static std::set<long> g_seen;		// (family, state, method, overridden) combinations observed in the logger's stream or the real one

enum { NSTATES = 20 };
// what the callbacks do this operation (set by the driver): update-type callbacks act on g_act, guards on g_cancel
static int g_act[NSTATES], g_target[NSTATES], g_cancel[NSTATES], g_rank[NSTATES], g_util[NSTATES], g_sel[NSTATES];
struct Ev { int v; };

enum Bit { bEntryGuard, bEnter, bReenter, bPreUpdate, bUpdate, bPostUpdate, bExitGuard, bExit, bRank, bUtility, bSelect, bPlanSucceeded, bPlanFailed, bPreReact, bReact, bPostReact, bQuery, NBITS };
static const Method kMethod[NBITS] = { Method::ENTRY_GUARD, Method::ENTER, Method::REENTER, Method::PRE_UPDATE, Method::UPDATE, Method::POST_UPDATE, Method::EXIT_GUARD, Method::EXIT,
	Method::RANK, Method::UTILITY, Method::SELECT, Method::PLAN_SUCCEEDED, Method::PLAN_FAILED, Method::PRE_REACT, Method::REACT, Method::POST_REACT, Method::QUERY };

constexpr unsigned maskOf(int salt, int id) {
	// salt 0: the interesting pairs spelled out for the first states (exactly one of enter / reenter, exactly one of each neighbouring pair); others hashed
	return	salt == 0 && id == 2 ? (1u << bReenter) | (1u << bExit) | (1u << bPostUpdate)
		:	salt == 0 && id == 3 ? (1u << bEnter) | (1u << bExitGuard) | (1u << bPreUpdate) | (1u << bPlanFailed)
		:	salt == 0 && id == 1 ? (1u << bReenter) | (1u << bUpdate) | (1u << bPlanSucceeded)
		:	salt == 3 ? 0x1FFFFu							// everything overridden
		:	salt == 4 ? 0u									// nothing overridden
		:	(unsigned) ((((unsigned) (id + 1) * 2654435761u) ^ ((unsigned) (salt + 1) * 40503u * 2246822519u) ^ (((unsigned) (id + 7) * (unsigned) (salt + 3) * 97u) << 7)) >> 5) & 0x1FFFFu;
}

static unsigned long long g_perMethod[(int) Method::COUNT];
static void real(int id, Method m) { g_real.push_back(Call{id, m}); ++g_perMethod[(int) m]; }

template <class C> static void act(int id, C& c) {
	switch (g_act[id]) {
	case 1: c.changeTo((hfsm2::StateID) g_target[id]); break;
	case 2: c.succeed(); break;
	case 3: c.fail(); break;
	case 4: c.restart((hfsm2::StateID) g_target[id]); break;
	case 5: c.resume((hfsm2::StateID) g_target[id]); break;
	default: break;
	}
}

#define MIXIN(NAME, BIT, DECL, BODY) \
	template <int ID, unsigned MASK, class B, bool ON = ((MASK >> BIT) & 1u) != 0> struct NAME : B {}; \
	template <int ID, unsigned MASK, class B> struct NAME<ID, MASK, B, true> : B { DECL BODY };

MIXIN(MEntryGuard,	bEntryGuard,	void entryGuard(typename B::GuardControl& c),	{ real(ID, Method::ENTRY_GUARD); if (g_cancel[ID] == 1) { g_cancel[ID] = 0; c.cancelPendingTransitions(); } })
MIXIN(MEnter,		bEnter,			void enter(typename B::PlanControl&),			{ real(ID, Method::ENTER); })
MIXIN(MReenter,		bReenter,		void reenter(typename B::PlanControl&),			{ real(ID, Method::REENTER); })
MIXIN(MPreUpdate,	bPreUpdate,		void preUpdate(typename B::FullControl& c),		{ real(ID, Method::PRE_UPDATE); if (g_act[ID] >= 10) { g_act[ID] -= 10; act(ID, c); g_act[ID] = 0; } })
MIXIN(MUpdate,		bUpdate,		void update(typename B::FullControl& c),		{ real(ID, Method::UPDATE); if (g_act[ID] < 10) { act(ID, c); g_act[ID] = 0; } })
MIXIN(MPostUpdate,	bPostUpdate,	void postUpdate(typename B::FullControl& c),	{ real(ID, Method::POST_UPDATE); if (g_act[ID] && g_act[ID] < 10) { act(ID, c); g_act[ID] = 0; } })
MIXIN(MExitGuard,	bExitGuard,		void exitGuard(typename B::GuardControl& c),	{ real(ID, Method::EXIT_GUARD); if (g_cancel[ID] == 2) { g_cancel[ID] = 0; c.cancelPendingTransitions(); } })
MIXIN(MExit,		bExit,			void exit(typename B::PlanControl&),			{ real(ID, Method::EXIT); })
MIXIN(MRank,		bRank,			typename B::Rank rank(const typename B::Control&),		{ real(ID, Method::RANK); return (typename B::Rank) g_rank[ID]; })
MIXIN(MUtility,		bUtility,		typename B::Utility utility(const typename B::Control&),	{ real(ID, Method::UTILITY); return (typename B::Utility) (0.25f * (float) (1 + g_util[ID])); })
MIXIN(MSelect,		bSelect,		hfsm2::Prong select(const typename B::Control&),		{ real(ID, Method::SELECT); return (hfsm2::Prong) g_sel[ID]; })
MIXIN(MPlanSucceeded, bPlanSucceeded, void planSucceeded(typename B::FullControl& c),	{ real(ID, Method::PLAN_SUCCEEDED); if (g_act[ID] == 7) { g_act[ID] = 0; c.changeTo((hfsm2::StateID) g_target[ID]); } })
MIXIN(MPlanFailed,	bPlanFailed,	void planFailed(typename B::FullControl& c),	{ real(ID, Method::PLAN_FAILED); if (g_act[ID] == 8) { g_act[ID] = 0; c.changeTo((hfsm2::StateID) g_target[ID]); } })
MIXIN(MPreReact,	bPreReact,		using B::preReact; void preReact(const Ev&, typename B::EventControl&),	{ real(ID, Method::PRE_REACT); })
MIXIN(MReact,		bReact,			using B::react; void react(const Ev& e, typename B::EventControl& c),	{ real(ID, Method::REACT); if (e.v == ID) c.changeTo((hfsm2::StateID) g_target[ID]); if (e.v == 100 + ID) c.consumeEvent(); })
MIXIN(MPostReact,	bPostReact,		using B::postReact; void postReact(const Ev&, typename B::EventControl&),	{ real(ID, Method::POST_REACT); })
MIXIN(MQuery,		bQuery,			using B::query; void query(Ev& e, typename B::ConstControl& c) const,	{ real(ID, Method::QUERY); if (e.v == 100 + ID) c.consumeQuery(); })

template <int ID, unsigned K, class B>
using Chain = MEntryGuard<ID, K, MEnter<ID, K, MReenter<ID, K, MPreUpdate<ID, K, MUpdate<ID, K, MPostUpdate<ID, K, MExitGuard<ID, K, MExit<ID, K, MRank<ID, K, MUtility<ID, K, MSelect<ID, K,
	MPlanSucceeded<ID, K, MPlanFailed<ID, K, MPreReact<ID, K, MReact<ID, K, MPostReact<ID, K, MQuery<ID, K, B>>>>>>>>>>>>>>>>>;

template <int SALT> struct Family {
	template <int ID> struct N;
	using M = hfsm2::MachineT<hfsm2::Config::ManualActivation::TaskCapacityN<12>::SubstitutionLimitN<3>>;
	using FSM = typename M::template Root<N<0>,
					typename M::template Composite<N<1>,
						N<2>,
						N<3>,
						typename M::template Resumable<N<4>, N<5>, N<6>>
					>,
					typename M::template Orthogonal<N<7>,
						typename M::template Composite<N<8>, N<9>, N<10>>,
						typename M::template Utilitarian<N<11>, N<12>, N<13>>
					>,
					typename M::template Random<N<14>, N<15>, N<16>>,
					typename M::template Selectable<N<17>, N<18>, N<19>>
				>;
	template <int ID> struct N : Chain<ID, maskOf(SALT, ID), typename FSM::State> {};
	using Instance = typename FSM::Instance;
	using Logger = typename M::LoggerInterface;
};

static bool overridden(int salt, int id, Method m) { for (int b = 0; b < NBITS; ++b) if (kMethod[b] == m) return (maskOf(salt, id) >> b) & 1u; return false; }
static bool reactType(Method m) { return m == Method::PRE_REACT || m == Method::REACT || m == Method::POST_REACT || m == Method::QUERY; }

template <int SALT> struct Log : Family<SALT>::Logger {
	using Base = typename Family<SALT>::Logger;
	void recordMethod(const typename Base::Context&, const hfsm2::StateID origin, const Method method) override { g_logged.push_back(Call{(int) origin, method}); }
};

static std::string show(const std::vector<Call>& v, size_t from) {
	std::string s; for (size_t i = from > 3 ? from - 3 : 0; i < v.size() && i < from + 5; ++i) s += (i == from ? " >>" : " ") + std::to_string(v[i].state) + "::" + hfsm2::methodName(v[i].method);
	return s;
}

template <int SALT> static bool compare(const char* op, int step) {
	std::vector<Call> want;
	for (const Call& c : g_logged) {
		const bool ov = c.state >= 0 && c.state < NSTATES && overridden(SALT, c.state, c.method);
		g_seen.insert(((long) SALT << 20) | ((long) (c.state & 0xff) << 8) | ((long) c.method << 1) | (ov ? 1 : 0));
#ifdef HFSM2_ENABLE_VERBOSE_DEBUG_LOG
		if (ov) want.push_back(c);
#else
		if (ov || !reactType(c.method)) want.push_back(c);
#endif
	}
	for (const Call& c : g_real) g_seen.insert(((long) SALT << 20) | ((long) (c.state & 0xff) << 8) | ((long) c.method << 1) | 1);
	g_checks += g_real.size();
	bool ok = want.size() == g_real.size();
	size_t i = 0; for (; i < want.size() && i < g_real.size(); ++i) if (!(want[i] == g_real[i])) { ok = false; break; }
	if (!ok) {
		const bool extra = i < want.size() && (i >= g_real.size() || !overridden(SALT, want[i].state, want[i].method));
		const char* key = extra ? "logger-told-of-a-method-the-state-does-not-define" : i >= want.size() ? "callback-ran-without-a-logger-record" : "logger-record-differs-from-the-callback-that-ran";
		V(key, "family " + std::to_string(SALT) + " step " + std::to_string(step) + " op " + op + " logged:" + show(want, i) + " | really ran:" + show(g_real, i));
	}
	g_real.clear(); g_logged.clear();
	return ok;
}

template <int SALT> static bool family(int steps) {
	using F = Family<SALT>; using FSM = typename F::FSM;
	Log<SALT> logger;
	typename F::Instance m{&logger};
	if (!compare<SALT>("construct", -1)) return false;
	for (int s = 0; s < steps; ++s) {
		for (int i = 0; i < NSTATES; ++i) { g_act[i] = 0; g_cancel[i] = 0; g_rank[i] = (int) (rnd() % 3); g_util[i] = (int) (rnd() % 4); g_sel[i] = (int) (rnd() % 2); g_target[i] = (int) (rnd() % NSTATES); }
		for (int k = (int) (rnd() % 3); k > 0; --k) { const int i = (int) (rnd() % NSTATES); static const int acts[] = {1, 1, 2, 3, 4, 5, 7, 8, 11, 12, 13}; g_act[i] = acts[rnd() % 11]; }
		if (rnd() % 5 == 0) g_cancel[rnd() % NSTATES] = 1 + (int) (rnd() % 2);
		int op = (int) (rnd() % 19); if (op >= 16) op = 12; const hfsm2::StateID t = (hfsm2::StateID) (rnd() % NSTATES);
		const char* name = "";
		if (!m.isActive()) { m.enter(); name = "enter"; }
		else switch (op) {
			case 0: case 1: m.update(); name = "update"; break;
			case 2: m.changeTo(t); m.update(); name = "changeTo+update"; break;
			case 3: m.restart(t); m.update(); name = "restart+update"; break;
			case 4: m.resume(t); m.update(); name = "resume+update"; break;
			case 5: m.select(t); m.update(); name = "select+update"; break;
			case 6: m.utilize(t); m.update(); name = "utilize+update"; break;
			case 7: m.randomize(t); m.update(); name = "randomize+update"; break;
			case 8: { Ev e{(int) (rnd() % 2 ? rnd() % NSTATES : 100 + rnd() % NSTATES)}; m.react(e); name = "react"; break; }
			case 9: { Ev e{(int) (rnd() % 2 ? 999 : 100 + rnd() % NSTATES)}; m.query(e); name = "query"; break; }
			case 10: m.immediateChangeTo(t); name = "immediateChangeTo"; break;
			case 11: { const hfsm2::StateID u = (hfsm2::StateID) (rnd() % NSTATES); m.changeTo(t); m.restart(u); m.update(); name = "changeTo+restart+update"; break; }
			case 12: { // plan in a region: its active leaf is asked to succeed (or fail) during the same step
				static const int regions[] = {0, 1, 4, 8, 11, 14, 17}; const int r = regions[rnd() % 7];
				auto plan = m.plan((hfsm2::RegionID) (r == 0 ? 0 : r == 1 ? 1 : r == 4 ? 2 : r == 8 ? 4 : r == 11 ? 5 : r == 14 ? 6 : 7));
				const hfsm2::StateID a = (hfsm2::StateID) (rnd() % 4 == 0 ? r + 1 + rnd() % 2 : m.isActive((hfsm2::StateID) (r + 1)) ? r + 1 : r + 2), b = (hfsm2::StateID) (r + 1 + rnd() % 2);
				plan.change(a, b); if (rnd() % 2) plan.restart(b, a);
				for (int i = 0; i < NSTATES; ++i) if (m.isActive((hfsm2::StateID) i) && rnd() % 3 == 0) g_act[i] = rnd() % 4 ? 2 : 3;
				m.update(); name = "plan+update"; break; }
			case 13: m.exit(); name = "exit"; break;
			case 14: m.reset(); name = "reset"; break;
			default: m.changeTo(t); m.immediateRestart((hfsm2::StateID) (rnd() % NSTATES)); name = "changeTo+immediateRestart"; break;
		}
		if (!compare<SALT>(name, s)) return false;
	}
	return true;
}

int main(int argc, char** argv) {
	const bool thorough = argc > 1 && !strcmp(argv[1], "thorough");
	rs ^= (argc > 2 ? strtoull(argv[2], nullptr, 10) : 0) * 0xD1342543DE82EF95ull + 1;
	const int steps = thorough ? 400000 : 30000;
	family<0>(steps); family<1>(steps); family<2>(steps); family<3>(steps); family<4>(steps);
	for (int b = 0; b < NBITS; ++b) printf("U %s %llu\n", hfsm2::methodName(kMethod[b]), g_perMethod[(int) kMethod[b]]);
	printf("Z %llu %llu %d %ld\n", g_checks, (unsigned long long) g_seen.size(), g_viol, g_breaks);
	return 0;
}
