// C02, batches of two requests whose destinations meet in a COMPOSITE region: the later request wins there, so after
// [changeTo(x), changeTo(r) | restart(r)] and one update() the destination r and all its ancestors are active (no guards involved).
// One fixed machine, every start configuration reachable by two immediate transitions, every (leaf x, state r) pair with a composite
// lowest common ancestor: deterministic, no seed. Written after a probe of the C17 check tripped over the first key below.
#include <hfsm2/machine.hpp>
#include <cstdio>
#include <cstring>
#include <string>

static long g_breaks = 0;
#ifdef HFSM2_VERIF
extern "C" void hfsm2_verif_break(const char* file, int line) { ++g_breaks; printf("B %s %d\n", strrchr(file, '/') ? strrchr(file, '/') + 1 : file, line); }
#endif
static unsigned long long g_checks = 0, g_scen = 0; static int g_viol = 0;
static int g_perKey[2];
static void V(bool known, const char* key, const std::string& detail) { ++g_viol; if (++g_perKey[known] <= 6) printf("V %s %s\n", key, detail.c_str()); }

using M = hfsm2::Machine;
struct S0; struct S1; struct S2; struct S3; struct S4; struct S5; struct S6; struct S7; struct S8; struct S9; struct S10; struct S11; struct S12; struct S13; struct S14; struct S15;
using FSM = M::Root<S0,
				S1,
				M::Resumable<S2,
					M::Orthogonal<S3, M::Composite<S4, S5, S6>, S7, S8>,
					M::Orthogonal<S9, M::Composite<S10, S11, S12>, M::Composite<S13, S14, S15>>
				>
			>;
struct S0 : FSM::State {}; struct S1 : FSM::State {}; struct S2 : FSM::State {}; struct S3 : FSM::State {}; struct S4 : FSM::State {}; struct S5 : FSM::State {}; struct S6 : FSM::State {}; struct S7 : FSM::State {};
struct S8 : FSM::State {}; struct S9 : FSM::State {}; struct S10 : FSM::State {}; struct S11 : FSM::State {}; struct S12 : FSM::State {}; struct S13 : FSM::State {}; struct S14 : FSM::State {}; struct S15 : FSM::State {};

enum { N = 16 };
static const int PARENT[N] = { -1, 0, 0, 2, 3, 4, 4, 3, 3, 2, 9, 10, 10, 9, 13, 13 };
static const char KIND[N + 1] = "CLCOCLLLLOCLLCLL";
static bool isAnc(int a, int s) { for (; s >= 0; s = PARENT[s]) if (s == a) return true; return false; }
static int lca(int a, int b) { for (; a >= 0; a = PARENT[a]) if (isAnc(a, b)) return a; return 0; }

int main() {
	static_assert(FSM::stateId<S15>() == 15 && FSM::stateId<S9>() == 9, "ids");
	FSM::Instance m;
	auto chain = [&](int s) { for (; s >= 0; s = PARENT[s]) if (!m.isActive((hfsm2::StateID) s)) return false; return true; };
	auto cfg = [&]() { std::string c; for (int i = 0; i < N; ++i) c += m.isActive((hfsm2::StateID) i) ? '1' : '0'; return c; };
	for (int s1 = 1; s1 < N; ++s1) for (int s2 = 1; s2 < N; ++s2) {
		if (KIND[s1] != 'L' || KIND[s2] != 'L') continue;
		for (int x = 1; x < N; ++x) for (int r = 1; r < N; ++r) for (int kind = 0; kind < 2; ++kind) {
			if (KIND[x] != 'L' || r == x || isAnc(r, x) || KIND[lca(x, r)] != 'C') continue;
			m.immediateChangeTo((hfsm2::StateID) s1); m.immediateChangeTo((hfsm2::StateID) s2);
			const std::string before = cfg();
			bool wasActive[N]; for (int i = 0; i < N; ++i) wasActive[i] = m.isActive((hfsm2::StateID) i);
			m.changeTo((hfsm2::StateID) x);
			if (kind) m.restart((hfsm2::StateID) r); else m.changeTo((hfsm2::StateID) r);
			m.update(); ++g_checks; 
			if (!chain(r)) {
				// the recorded pattern: strictly between the common ancestor and r lies a composite region that was active, and below it (above r) an active orthogonal region
				const int l = lca(x, r); bool compoBetween = false, orthoBelow = false;
				for (int a = PARENT[r]; a >= 0 && a != l; a = PARENT[a]) { if (KIND[a] == 'O' && wasActive[a]) orthoBelow = true; if (KIND[a] == 'C' && wasActive[a] && orthoBelow) compoBetween = true; }
				V(compoBetween, compoBetween ? "later-request-into-an-active-orthogonal-region-below-an-active-composite-region-is-lost" : "destination-of-the-later-request-not-active",
				  "before " + before + " batch changeTo(" + std::to_string(x) + ") " + (kind ? "restart(" : "changeTo(") + std::to_string(r) + ") after " + cfg());
			}
		}
		++g_scen;
	}
	printf("K known-pattern %d other %d\n", g_perKey[1], g_perKey[0]);
	printf("Z %llu %llu %d %ld\n", g_checks, g_scen, g_viol, g_breaks);
	return 0;
}
