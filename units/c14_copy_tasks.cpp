// C14 for copied / moved instances: a plan task appended with a payload carries exactly that payload into the transition it issues,
// also when the whole instance was copied or moved while the task was pending (tasks are copied with the instance), and also for
// tasks without payload next to them. Payload: several fields, odd size, the distinguishing value in the tail.
#define HFSM2_ENABLE_PLANS
#define HFSM2_ENABLE_TRANSITION_HISTORY
#include <hfsm2/machine.hpp>
#include <cstdio>
#include <cstdlib>
#include <cstring>
#include <string>
#include <vector>

static long g_breaks = 0;
#ifdef HFSM2_VERIF
extern "C" void hfsm2_verif_break(const char* file, int line) { ++g_breaks; printf("B %s %d\n", strrchr(file, '/') ? strrchr(file, '/') + 1 : file, line); }
#endif
static unsigned long long g_checks = 0, g_distinct = 0; static int g_viol = 0;
static void V(const char* key, const std::string& detail) { if (++g_viol <= 40) printf("V %s %s\n", key, detail.c_str()); }
static uint64_t rs = 0x9E3779B97F4A7C15ull;
static uint64_t rnd() { rs ^= rs << 13; rs ^= rs >> 7; rs ^= rs << 17; return rs; }

struct Pay { int tag; char pad[9]; int id; int check; char tail[3]; };
static Pay mk(int id) { Pay p; memset(&p, 0x5a, sizeof p); p.tag = 0x600df00d; p.id = id; p.check = ~id; return p; }
static int idOf(const Pay* p) { if (!p) return -1; return (p->tag == 0x600df00d && p->check == ~p->id && p->pad[0] == 0x5a && p->tail[2] == 0x5a) ? p->id : -777; }

struct Ctx { std::vector<int> guardSaw, enterSaw; bool succeed[8]; };
using M = hfsm2::MachineT<hfsm2::Config::ContextT<Ctx*>::PayloadT<Pay>::TaskCapacityN<12>>;
struct R; struct S0; struct S1; struct S2; struct S3; struct S4;
using FSM = M::Root<R, S0, S1, S2, S3, S4>;
template <int N> struct St : FSM::State {
	void update(FullControl& c) { if (c.context()->succeed[N]) { c.context()->succeed[N] = false; c.succeed(); } }
	void entryGuard(GuardControl& c) { const auto& p = c.pendingTransitions(); for (unsigned i = 0; i < p.count(); ++i) c.context()->guardSaw.push_back(idOf(p[i].payload())); }
	void enter(PlanControl& c) { const auto& t = c.currentTransitions(); for (unsigned i = 0; i < t.count(); ++i) c.context()->enterSaw.push_back(idOf(t[i].payload())); }
};
struct R : FSM::State {};
struct S0 : St<0> {}; struct S1 : St<1> {}; struct S2 : St<2> {}; struct S3 : St<3> {}; struct S4 : St<4> {};

using I = FSM::Instance;
static int active(const FSM::Instance& m) { for (int s = 1; s <= 5; ++s) if (m.isActive((hfsm2::StateID)s)) return s - 1; return -1; }

// chain S0 -> S1 -> ... : task k goes from Sk to Sk+1 and carries ids[k] (or nothing when ids[k] < 0)
static bool drive(FSM::Instance& m, Ctx& ctx, const std::vector<int>& ids, int from, const char* what) {
	for (size_t k = (size_t)from; k < ids.size(); ++k) {
		ctx.guardSaw.clear(); ctx.enterSaw.clear();
		ctx.succeed[k] = true;
		m.update();
		++g_checks;
		if (active(m) != (int)k + 1) { V("copy|task-not-executed-in-the-instance", std::string(what) + " task " + std::to_string(k)); return false; }
		const int want = ids[k] < 0 ? -1 : ids[k];
		for (int seen : ctx.guardSaw) if (seen != want) { V("payload|task-payload-seen-by-guard-differs-from-the-one-appended", std::string(what) + " task " + std::to_string(k) + " seen " + std::to_string(seen) + " appended " + std::to_string(want)); return false; }
		for (int seen : ctx.enterSaw) if (seen != want) { V("payload|task-payload-seen-in-enter-differs-from-the-one-appended", std::string(what) + " task " + std::to_string(k) + " seen " + std::to_string(seen) + " appended " + std::to_string(want)); return false; }
		if (ctx.guardSaw.empty() || ctx.enterSaw.empty()) { V("harness|no-observation", what); return false; }
		const auto* lt = m.lastTransitionTo((hfsm2::StateID)(k + 2));
		const int h = lt ? idOf(lt->payload()) : -2;
		if (h != want) { V("payload|task-payload-in-history-differs-from-the-one-appended", std::string(what) + " task " + std::to_string(k) + " seen " + std::to_string(h) + " appended " + std::to_string(want)); return false; }
	}
	return true;
}

int main(int argc, char** argv) {
	const bool thorough = argc > 1 && !strcmp(argv[1], "thorough");
	rs ^= (argc > 2 ? strtoull(argv[2], nullptr, 10) : 0) * 0xD1342543DE82EF95ull + 1;
	const int rounds = thorough ? 3000 : 300;
	for (int r = 0; r < rounds; ++r) {
		std::vector<int> ids; for (int k = 0; k < 4; ++k) ids.push_back((rnd() % 4 == 0) ? -1 : (int)(rnd() % 1000000) + 1);
		const int done = (int)(rnd() % 3);			// tasks executed before the instance is copied / moved
		for (int mode = 0; mode < 3; ++mode) {		// 0 original only, 1 copy, 2 move
			Ctx ctx{}; 
			void* mem = malloc(sizeof(FSM::Instance)); FSM::Instance* a = new (mem) FSM::Instance{&ctx};
			auto plan = a->plan();
			for (int k = 0; k < 4; ++k) { const bool ok = ids[(size_t)k] < 0 ? plan.change((hfsm2::StateID)(k + 1), (hfsm2::StateID)(k + 2)) : plan.changeWith((hfsm2::StateID)(k + 1), (hfsm2::StateID)(k + 2), mk(ids[(size_t)k])); if (!ok) { V("harness|append-failed", ""); return 0; } }
			std::vector<int> head(ids.begin(), ids.begin() + done);
			if (!drive(*a, ctx, head, 0, "original")) return 0;
			FSM::Instance* b = a; void* mem2 = nullptr;
			if (mode) {
				mem2 = malloc(sizeof(FSM::Instance)); memset(mem2, 0xA5, sizeof(FSM::Instance));
				b = mode == 1 ? new (mem2) FSM::Instance{*a} : new (mem2) FSM::Instance{static_cast<FSM::Instance&&>(*a)};
				a->~I(); memset(mem, 0xDD, sizeof(FSM::Instance)); free(mem); mem = nullptr;
			}
			if (!drive(*b, ctx, ids, done, mode == 0 ? "original" : mode == 1 ? "copy" : "moved-to instance")) return 0;
			b->~I(); if (mem2) free(mem2); if (mem) free(mem);
			++g_distinct;
		}
	}
	printf("Z %llu %llu %d %ld\n", g_checks, g_distinct, g_viol, g_breaks);
	return 0;
}
