// C18: bit arrays, sub-range views and bit streams against set / vector<bool> models.
// Objects under test live in exact-size heap blocks so that ASan red zones abut them.
#define HFSM2_ENABLE_SERIALIZATION
#define HFSM2_ENABLE_PLANS
#include <hfsm2/machine.hpp>
#include <cstdio>
#include <cstdlib>
#include <cstring>
#include <vector>
#include <string>
#include <utility>
#include <new>

static long g_breaks = 0;
#ifdef HFSM2_VERIF
extern "C" void hfsm2_verif_break(const char* file, int line) { ++g_breaks; printf("B %s %d\n", strrchr(file, '/') ? strrchr(file, '/') + 1 : file, line); }
#endif

static unsigned long long g_checks = 0, g_distinct = 0;
static int g_viol = 0;
static void V(const char* key, const std::string& detail) { if (++g_viol <= 40) printf("V %s %s\n", key, detail.c_str()); }
static uint64_t rs = 88172645463325252ull;
static uint64_t rnd() { rs ^= rs << 13; rs ^= rs >> 7; rs ^= rs << 17; return rs; }

template <typename T> struct Heap {
	void* mem; T* p;
	Heap() { mem = malloc(sizeof(T)); p = new (mem) T(); }
	~Heap() { p->~T(); free(mem); }
	T& operator*() { return *p; } T* operator->() { return p; }
};

using namespace hfsm2; using namespace hfsm2::detail;

// ---------------------------------------------------------------------------------------------
template <unsigned N>
struct ArrayTest {
	using A = BitArrayT<N>;
	static constexpr unsigned UNITS = (N + 7) / 8;
	static bool same(const A& a, const std::vector<bool>& m, const char* where, unsigned idx) {
		for (unsigned j = 0; j < N; ++j) { ++g_checks; if (a.get(j) != m[j]) { V("array|operation-disturbed-another-index", std::string(where) + " N=" + std::to_string(N) + " i=" + std::to_string(idx) + " j=" + std::to_string(j)); return false; } }
		bool any = false; for (unsigned j = 0; j < N; ++j) any = any || m[j];
		if (a.empty() == any) { V("array|empty()-differs-from-set-emptiness", std::string(where) + " N=" + std::to_string(N)); return false; }
		return true;
	}
	template <unsigned I> static void staticOne(A& a, std::vector<bool>& m) {
		a.template set<I>(); m[I] = true; same(a, m, "set<I>", I);
		if (!a.template get<I>()) V("array|static-get-differs", "N=" + std::to_string(N) + " I=" + std::to_string(I));
		a.template clear<I>(); m[I] = false; same(a, m, "clear<I>", I);
		if (a.template get<I>()) V("array|static-get-differs", "N=" + std::to_string(N) + " I=" + std::to_string(I));
		if (rnd() & 1) { a.template set<I>(); m[I] = true; }
	}
	template <std::size_t... Is> static void staticAll(A& a, std::vector<bool>& m, std::index_sequence<Is...>) { int d[] = { (staticOne<(unsigned)Is>(a, m), 0)... }; (void)d; }
	static void run(bool exhaustive, int randomOps) {
		Heap<A> ha, hb; A& a = *ha; A& b = *hb;
		std::vector<bool> m(N, false), mb(N, false);
		same(a, m, "fresh", 0);
		// exhaustive single-index behaviour on an all-clear and an all-set background
		for (int bg = 0; bg < 2; ++bg) {
			if (bg) { a.set(); for (unsigned j = 0; j < N; ++j) m[j] = true; } else { a.clear(); std::fill(m.begin(), m.end(), false); }
			// set() on the whole array may set padding bits: only indices < N are judged, and empty() after clear()
			for (unsigned i = 0; i < N; ++i) {
				a.set(i); m[i] = true; if (!same(a, m, "set", i)) return;
				a.clear(i); m[i] = false; if (!same(a, m, "clear", i)) return;
				if (bg) { a.set(i); m[i] = true; }
			}
			++g_distinct;
		}
		a.clear(); std::fill(m.begin(), m.end(), false);
		if (!a.empty()) V("array|not-empty-after-clear", "N=" + std::to_string(N));
		if (exhaustive) staticAll(a, m, std::make_index_sequence<N>());
		// random mixes incl. &=, !=, &
		for (int k = 0; k < randomOps; ++k) {
			const unsigned i = (unsigned)(rnd() % N);
			switch (rnd() % 8) {
				case 0: case 1: a.set(i); m[i] = true; break;
				case 2: a.clear(i); m[i] = false; break;
				case 3: b.set(i); mb[i] = true; break;
				case 4: b.clear(i); mb[i] = false; break;
				case 5: { bool ne = false; for (unsigned j = 0; j < N; ++j) ne = ne || (m[j] != mb[j]);
					// compare only when neither array ever had its padding bits set
					++g_checks; if ((a != b) != ne) V("array|operator!=-differs-from-set-inequality", "N=" + std::to_string(N)); break; }
				case 6: break;	// bool operator&(a, b) has no documented set meaning (it is not used by the library): observed, not judged
				default: a &= b; for (unsigned j = 0; j < N; ++j) m[j] = m[j] && mb[j]; break;
			}
			if (!same(a, m, "random", i)) return;
		}
		views();
	}
	// views: every (unit, width) that fits
	static void views() {
		for (unsigned unit = 0; unit < UNITS; ++unit)
			for (unsigned width = 1; unit * 8 + width <= UNITS * 8 && width <= 255; ++width) {
				if (unit * 8 + width > N && unit * 8 + width > UNITS * 8) continue;
				Heap<A> ha; A& a = *ha;
				const Units u{(Short)unit, (Short)width};
				++g_distinct;
				// emptiness reflects exactly the range
				for (unsigned bit = 0; bit < N; ++bit) {
					a.clear(); a.set(bit);
					const bool inside = bit >= unit * 8 && bit < unit * 8 + width;
					++g_checks;
					if ((bool)a.bits(u) != inside) { V("view|Bits-emptiness-covers-another-range", "N=" + std::to_string(N) + " unit=" + std::to_string(unit) + " width=" + std::to_string(width) + " bit=" + std::to_string(bit)); return; }
					if ((bool)static_cast<const A&>(a).cbits(u) != inside) { V("view|CBits-emptiness-covers-another-range", "N=" + std::to_string(N) + " unit=" + std::to_string(unit) + " width=" + std::to_string(width) + " bit=" + std::to_string(bit)); return; }
				}
				// get/set/clear through the view touch exactly storage bit unit*8 + index
				for (unsigned idx = 0; idx < width && unit * 8 + idx < N; ++idx) {
					a.clear();
					auto bv = a.bits(u);
					bv.set((typename A::Index)idx);
					for (unsigned j = 0; j < N; ++j) { ++g_checks; if (a.get(j) != (j == unit * 8 + idx)) { V("view|set-through-view-touched-another-index", "N=" + std::to_string(N) + " unit=" + std::to_string(unit) + " idx=" + std::to_string(idx) + " j=" + std::to_string(j)); return; } }
					if (!bv.get((typename A::Index)idx) || !static_cast<const A&>(a).cbits(u).get((typename A::Index)idx)) V("view|get-through-view-differs", "N=" + std::to_string(N));
					a.set(); bv.clear((typename A::Index)idx);
					for (unsigned j = 0; j < N; ++j) { ++g_checks; if (a.get(j) != (j != unit * 8 + idx)) { V("view|clear-through-view-touched-another-index", "N=" + std::to_string(N) + " unit=" + std::to_string(unit) + " idx=" + std::to_string(idx)); return; } }
				}
				// clear() of the view clears exactly the range
				if (unit * 8 + width <= N) {
					a.set(); a.bits(u).clear();
					// bits of the view's last unit beyond its width are padding owned by the view: not judged
					const unsigned unitsEnd = (unit + (width + 7) / 8) * 8;
					for (unsigned j = 0; j < N; ++j) { const bool inside = j >= unit * 8 && j < unit * 8 + width; if (!inside && j >= unit * 8 && j < unitsEnd) continue; ++g_checks; if (a.get(j) == inside) { V("view|clear()-of-view-does-not-cover-exactly-its-range", "N=" + std::to_string(N) + " unit=" + std::to_string(unit) + " width=" + std::to_string(width) + " j=" + std::to_string(j)); return; } }
				}
			}
	}
};

template <unsigned... Ns> static void arrays(bool ex, int ops) { int d[] = { (ArrayTest<Ns>::run(ex, ops), 0)... }; (void)d; }

// ---------------------------------------------------------------------------------------------
template <Long BITS>
struct StreamTest {
	using Buf = StreamBufferT<BITS>; using W = BitWriteStreamT<BITS>; using R = BitReadStreamT<BITS>;
	template <unsigned WIDTH> static void wr(W& w, uint32_t v) { w.template write<WIDTH>((UBitWidth<WIDTH>)v); }
	template <unsigned WIDTH> static uint32_t rd(R& r) { return (uint32_t)r.template read<WIDTH>(); }
	static void write(W& w, unsigned width, uint32_t v) {
		switch (width) {
#define CASE(n) case n: wr<n>(w, v); break;
			CASE(1) CASE(2) CASE(3) CASE(4) CASE(5) CASE(6) CASE(7) CASE(8) CASE(9) CASE(10) CASE(11) CASE(12) CASE(13) CASE(14) CASE(15) CASE(16)
			CASE(17) CASE(18) CASE(19) CASE(20) CASE(21) CASE(22) CASE(23) CASE(24) CASE(25) CASE(26) CASE(27) CASE(28) CASE(29) CASE(30) CASE(31) CASE(32)
#undef CASE
		}
	}
	static uint32_t read(R& r, unsigned width) {
		switch (width) {
#define CASE(n) case n: return rd<n>(r);
			CASE(1) CASE(2) CASE(3) CASE(4) CASE(5) CASE(6) CASE(7) CASE(8) CASE(9) CASE(10) CASE(11) CASE(12) CASE(13) CASE(14) CASE(15) CASE(16)
			CASE(17) CASE(18) CASE(19) CASE(20) CASE(21) CASE(22) CASE(23) CASE(24) CASE(25) CASE(26) CASE(27) CASE(28) CASE(29) CASE(30) CASE(31) CASE(32)
#undef CASE
		}
		return 0;
	}
	static uint32_t maskOf(unsigned w) { return w == 32 ? 0xffffffffu : ((1u << w) - 1u); }
	static void seq(const std::vector<std::pair<unsigned, uint32_t>>& items, const char* what) {
		Heap<Buf> hb; Buf& buf = *hb; buf.clear();
		W w{buf}; Long cur = 0;
		for (auto& it : items) { write(w, it.first, it.second); cur = (Long)(cur + it.first); ++g_checks; if (w.cursor() != cur) { V("stream|write-cursor-wrong", std::string(what) + " width=" + std::to_string(it.first)); return; } }
		R r{buf}; cur = 0;
		for (auto& it : items) {
			const uint32_t v = read(r, it.first); cur = (Long)(cur + it.first); ++g_checks;
			if (v != it.second) { V("stream|value-does-not-round-trip", std::string(what) + " width=" + std::to_string(it.first) + " at-bit=" + std::to_string(cur - it.first) + " wrote=" + std::to_string(it.second) + " read=" + std::to_string(v)); return; }
			if (r.cursor() != cur) { V("stream|read-cursor-wrong", std::string(what) + " width=" + std::to_string(it.first)); return; }
		}
		// buffer comparison is equality of contents
		Heap<Buf> hc; Buf& c = *hc; c.clear(); W w2{c};
		for (auto& it : items) write(w2, it.first, it.second);
		++g_checks;
		if (!(buf == c) || (buf != c)) V("stream|equal-contents-compare-unequal", what);
		if (!items.empty()) {
			Heap<Buf> hd; Buf& d = *hd; d.clear(); W w3{d};
			bool first = true;
			for (auto& it : items) { write(w3, it.first, first ? (it.second ^ 1u) & maskOf(it.first) : it.second); first = false; }
			if ((d == buf) || !(d != buf)) V("stream|different-contents-compare-equal", what);
		}
		++g_distinct;
	}
	// buffer comparison is equality of contents: two streams differing in exactly one bit, for every bit of the capacity
	static void singleBitDifferences(int rounds) {
		for (int k = 0; k < rounds; ++k) {
			std::vector<uint32_t> bits(BITS);
			for (auto& b : bits) b = (k == 0) ? 0u : (k == 1) ? 1u : (uint32_t)(rnd() & 1u);
			Heap<Buf> ha; Buf& a = *ha; a.clear(); { W w{a}; for (unsigned i = 0; i < BITS; ++i) write(w, 1, bits[i]); }
			for (unsigned p = 0; p < BITS; ++p) {
				Heap<Buf> hb; Buf& b = *hb; b.clear(); { W w{b}; for (unsigned i = 0; i < BITS; ++i) write(w, 1, i == p ? bits[i] ^ 1u : bits[i]); }
				++g_checks;
				if ((a == b) || !(a != b)) { V("stream|different-contents-compare-equal", "capacity=" + std::to_string(BITS) + " differing-bit=" + std::to_string(p)); return; }
				Heap<Buf> hc; Buf& c = *hc; c.clear(); { W w{c}; for (unsigned i = 0; i < BITS; ++i) write(w, 1, bits[i]); }
				if (!(a == c) || (a != c)) { V("stream|equal-contents-compare-unequal", "capacity=" + std::to_string(BITS)); return; }
			}
			++g_distinct;
		}
	}
	static void run(int randomSeqs) {
		singleBitDifferences(randomSeqs >= 1000 ? 12 : 4);
		// every (start alignment, width) pair with 64 values each, followed by a sentinel
		for (unsigned off = 0; off < 8; ++off)
			for (unsigned width = 1; width <= 32; ++width) {
				if (off + width + 8 > BITS) continue;
				for (int k = 0; k < 64; ++k) {
					uint32_t v = (k == 0) ? 0 : (k == 1) ? maskOf(width) : (k < 34 && (unsigned)(k - 2) < width) ? (1u << (k - 2)) : (uint32_t)rnd() & maskOf(width);
					std::vector<std::pair<unsigned, uint32_t>> items;
					if (off) items.push_back({off, (uint32_t)rnd() & maskOf(off)});
					items.push_back({width, v});
					items.push_back({8, 0xA5});
					seq(items, "aligned");
				}
			}
		for (int s = 0; s < randomSeqs; ++s) {
			std::vector<std::pair<unsigned, uint32_t>> items; unsigned used = 0;
			for (;;) { const unsigned w = 1 + (unsigned)(rnd() % 32); if (used + w > BITS) break; items.push_back({w, (uint32_t)rnd() & maskOf(w)}); used += w; }
			// fill up to the very last bit
			while (used < BITS) { const unsigned w = (BITS - used) > 32 ? 32 : (unsigned)(BITS - used); items.push_back({w, (uint32_t)rnd() & maskOf(w)}); used += w; }
			seq(items, "random-full");
		}
	}
};

int main(int argc, char** argv) {
	const bool thorough = argc > 1 && !strcmp(argv[1], "thorough");
	rs ^= (argc > 2 ? strtoull(argv[2], nullptr, 10) : 0) * 0x9e3779b97f4a7c15ull + 1;
	const int ops = thorough ? 20000 : 2000;
	arrays<1, 2, 3, 7, 8, 9, 15, 16, 17>(true, ops);			// static-index get/set/clear<I> for every I as well
	arrays<4, 5, 6, 10, 11, 12, 13, 14, 18, 19, 20, 21, 22, 23, 24, 25, 26, 27, 28, 29, 30, 31, 32, 33, 34, 35, 36, 37, 38, 39, 40>(false, ops);
	arrays<63, 64, 65, 127, 128, 255>(false, ops);
	StreamTest<40>::run(thorough ? 4000 : 300); StreamTest<271>::run(thorough ? 3000 : 300);
	StreamTest<9>::singleBitDifferences(6); StreamTest<16>::singleBitDifferences(6); StreamTest<17>::singleBitDifferences(6); StreamTest<33>::singleBitDifferences(6); StreamTest<64>::singleBitDifferences(6);
	printf("Z %llu %llu %d %ld\n", g_checks, g_distinct, g_viol, g_breaks);
	return 0;
}
