// FIXED by c171cf0: restart() of an active region located directly under an orthogonal root was ignored.
// Expected output 'a' (region C restarted into its first sub-state); the library prints 'b'.
#include <hfsm2/machine.hpp>
#include <cstdio>
using M = hfsm2::Machine;
struct R; struct C; struct A; struct B; struct L;
using FSM = M::OrthogonalRoot<R, M::Composite<C, A, B>, L>;
struct R : FSM::State {}; struct C : FSM::State {}; struct A : FSM::State {}; struct B : FSM::State {}; struct L : FSM::State {};
int main() {
	FSM::Instance m;
	m.immediateChangeTo<B>();
	m.immediateRestart<C>();
	printf("%s\n", m.isActive<A>() ? "a" : "b");
	return m.isActive<A>() ? 0 : 1;
}
