// FIXED by /repo 0be64ac (was a known finding): after a single approved utilize request, lastTransitionTo() was null for the
// sub-state that the utility evaluation picked. Expected exit code 0; the library returns 1.
#define HFSM2_ENABLE_UTILITY_THEORY
#define HFSM2_ENABLE_TRANSITION_HISTORY
#include <hfsm2/machine.hpp>
#include <cstdio>
using M = hfsm2::Machine;
struct Top; struct Idle; struct U; struct Lo; struct Hi;
using FSM = M::Root<Top, Idle, M::Composite<U, Lo, Hi>>;
struct Top : FSM::State {}; struct Idle : FSM::State {}; struct U : FSM::State {};
struct Lo : FSM::State { Utility utility(const Control&) { return 0.1f; } };
struct Hi : FSM::State { Utility utility(const Control&) { return 0.9f; } };
int main() {
	FSM::Instance m;
	m.immediateUtilize<U>();
	const bool ok = m.isActive<Hi>() && m.lastTransitionTo<U>() && m.lastTransitionTo<Hi>();
	printf("Hi active: %d, lastTransitionTo<U>: %p, lastTransitionTo<Hi>: %p\n", (int)m.isActive<Hi>(), (const void*)m.lastTransitionTo<U>(), (const void*)m.lastTransitionTo<Hi>());
	return ok ? 0 : 1;
}
