// changeTo<X>() where X is a region directly under an (active) orthogonal region O: does the orthogonal sibling region Y keep its sub-state?
// Property C02: "Regions no request touches keep their sub-state". Expected output 'd'.
#include <hfsm2/machine.hpp>
#include <cstdio>
using M = hfsm2::Machine;
struct Top; struct O; struct X; struct A; struct B; struct Y; struct C; struct D; struct Other;
using FSM = M::Root<Top, M::Orthogonal<O, M::Composite<X, A, B>, M::Composite<Y, C, D>>, Other>;
struct Top : FSM::State {}; struct O : FSM::State {}; struct X : FSM::State {}; struct A : FSM::State {}; struct B : FSM::State {};
struct Y : FSM::State {}; struct C : FSM::State {}; struct D : FSM::State {}; struct Other : FSM::State {};
int main() {
	FSM::Instance m;
	m.immediateChangeTo<D>();        // Y: c -> d
	m.immediateChangeTo<B>();        // X: a -> b   (Y untouched: stays d)
	printf("after changeTo<B>: Y in %s\n", m.isActive<D>() ? "d" : "c");
	m.immediateChangeTo<X>();        // request addresses region X only
	printf("after changeTo<X>: X in %s, Y in %s\n", m.isActive<A>() ? "a" : "b", m.isActive<D>() ? "d" : "c");
	return m.isActive<D>() ? 0 : 1;
}
