// FIXED by /repo cef50b1 (was a known finding): build with -fsanitize=address; heap-use-after-free in FloatRandomT::uint64()
#define HFSM2_ENABLE_UTILITY_THEORY
#include <hfsm2/machine.hpp>
#include <new>
#include <cstdlib>
using M = hfsm2::Machine;
struct A; struct B; struct C;
using FSM = M::RandomPeerRoot<A, B, C>;
struct A : FSM::State {}; struct B : FSM::State {}; struct C : FSM::State {};
int main() {
	void* mem = malloc(sizeof(FSM::Instance));
	FSM::Instance* original = new (mem) FSM::Instance;
	FSM::Instance copy{*original};
	using I = FSM::Instance; original->~I(); free(mem);

	copy.randomize(0); copy.update();          // draws from the generator that lived inside 'original'
	return 0;
}
