// KNOWN FINDING (open): a schedule request in a vetoed round still takes effect (by design) but is not recorded,
// so replaying the recorded history on an identically prepared replica resumes another sub-state.
// Expected exit code 0 (replica == authority); the library returns 1.
#define HFSM2_ENABLE_TRANSITION_HISTORY
#include <hfsm2/machine.hpp>
#include <cstdio>
using M = hfsm2::Machine;
struct Ctx { bool veto = true; };
using Cfg = hfsm2::Config::ContextT<Ctx&>;
using MM = hfsm2::MachineT<Cfg>;
struct Top; struct Idle; struct R; struct A; struct B;
using FSM = MM::Root<Top, Idle, MM::Resumable<R, A, B>>;
struct Top : FSM::State {};
struct Idle : FSM::State {
	// first round [schedule(B), changeTo(R)] is vetoed and replaced by resume(R)
	void exitGuard(GuardControl& c) { if (c.context().veto) { c.context().veto = false; c.cancelPendingTransitions(); c.resume<R>(); } }
};
struct R : FSM::State {}; struct A : FSM::State {}; struct B : FSM::State {};
int main() {
	Ctx ca, cr; cr.veto = false;
	FSM::Instance authority{ca}, replica{cr};
	authority.schedule<B>(); authority.changeTo<R>();
	authority.update();
	replica.replayTransitions(authority.previousTransitions());
	printf("authority in %s, replica in %s\n", authority.isActive<B>() ? "B" : "A", replica.isActive<B>() ? "B" : "A");
	return authority.isActive<B>() == replica.isActive<B>() ? 0 : 1;
}
