// KNOWN FINDING (open): a plan task created with restart() is executed as a plain change.
// Region R is Resumable; its sub-state B was left last, so a *change* into R resumes B while a *restart* must enter A.
// Expected output 'A' ; the library prints 'B'.
#define HFSM2_ENABLE_PLANS
#include <hfsm2/machine.hpp>
#include <cstdio>
using M = hfsm2::Machine;
struct Top; struct Work; struct R; struct A; struct B;
using FSM = M::Root<Top, Work, M::Resumable<R, A, B>>;
struct Top : FSM::State {};
struct Work : FSM::State { void update(FullControl& c) { c.succeed(); } };
struct R : FSM::State {}; struct A : FSM::State {}; struct B : FSM::State {};
int main() {
	FSM::Instance m;
	m.immediateChangeTo<B>();			// R remembers B
	m.immediateChangeTo<Work>();
	m.plan().restart<Work, R>();		// task: when Work succeeds, RESTART R
	m.update();
	printf("%s\n", m.isActive<A>() ? "A" : m.isActive<B>() ? "B" : "?");
	return m.isActive<A>() ? 0 : 1;
}
