// restart() of an orthogonal region nested directly in an orthogonal region must re-resolve its sub-regions
// (fixed by "fix: a request addressing an orthogonal region nested in an orthogonal region ..."): prints 'a' when it does.
#include <hfsm2/machine.hpp>
#include <cstdio>
using M = hfsm2::Machine;
struct R; struct X; struct C; struct A; struct B; struct L1; struct L2;
using FSM = M::OrthogonalRoot<R, M::Orthogonal<X, M::Composite<C, A, B>, L1>, L2>;
struct R : FSM::State {}; struct X : FSM::State {}; struct C : FSM::State {};
struct A : FSM::State {}; struct B : FSM::State {}; struct L1 : FSM::State {}; struct L2 : FSM::State {};
int main() {
	FSM::Instance m;
	m.immediateChangeTo<B>();
	m.immediateRestart<X>();
	printf("%s\n", m.isActive<A>() ? "a" : "b");
	return m.isActive<A>() ? 0 : 1;
}
